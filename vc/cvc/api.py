"""A-API: contracts of the CPython C-API primitives used by ctraits.c (DESIGN 3).

Each primitive says: its result (new / borrowed reference, NULL <=> error indicator set), its effect on the error
indicator, which Python-visible state it may change and whether it runs Python code (A-HAVOC).  These are
assumptions about CPython written from the C-API reference; they are listed in every evidence file.
"""
import z3

from .core import (Obj, NULL, INT, F64, BV32, CSt, Ptr, FnRef, StrLit, EXC, EXC_OTHER_BASE, truth, as_int,
                   FIELD_SORTS)
from ..pyvc.values import Unsupported

# ---- immutable object theory -------------------------------------------------------------------------------
type_of = z3.Function("type_of", Obj, Obj)
subtype = z3.Function("is_subtype", Obj, Obj, z3.BoolSort())          # PyType_IsSubtype (pure C on the MRO)
float_val = z3.Function("float_val", Obj, F64)                         # ob_fval of a float object
long_val = z3.Function("long_val", Obj, INT)                           # mathematical value of an int object
long_fits = z3.Function("long_fits_in_C_long", Obj, z3.BoolSort())
tuple_len = z3.Function("tuple_len", Obj, INT)
tuple_item = z3.Function("tuple_item", Obj, INT, Obj)
EMPTY_TUPLE = z3.Const("g_empty_tuple", Obj)
callable_ = z3.Function("is_callable", Obj, z3.BoolSort())
# results of protocol calls that run Python code are functions of (object, havoc epoch)
EP = INT

TYPES = {n: z3.Const("g_" + n, Obj) for n in (
    "PyLong_Type", "PyFloat_Type", "PyTuple_Type", "PyList_Type", "PyDict_Type", "PyUnicode_Type", "PyBytes_Type",
    "PyType_Type", "PyComplex_Type", "PyBool_Type", "PyBaseObject_Type")}
NONE = z3.Const("g__Py_NoneStruct", Obj)
TRUE = z3.Const("g__Py_TrueStruct", Obj)
FALSE = z3.Const("g__Py_FalseStruct", Obj)
SINGLETONS = {"Undefined": z3.Const("g_Undefined", Obj), "Uninitialized": z3.Const("g_Uninitialized", Obj),
              "TraitError": z3.Const("g_TraitError", Obj), "DelegationError": z3.Const("g_DelegationError", Obj)}
FLAG_TYPES = {1 << 24: "PyLong_Type", 1 << 25: "PyList_Type", 1 << 26: "PyTuple_Type", 1 << 27: "PyBytes_Type",
              1 << 28: "PyUnicode_Type", 1 << 29: "PyDict_Type", 1 << 31: "PyType_Type"}
EXC_OBJ = {"PyExc_TypeError": "TypeError", "PyExc_AttributeError": "AttributeError", "PyExc_KeyError": "KeyError",
           "PyExc_ValueError": "ValueError", "PyExc_OverflowError": "OverflowError", "PyExc_SystemError": "SystemError",
           "PyExc_RuntimeError": "RuntimeError", "PyExc_IndexError": "IndexError", "TraitError": "TraitError",
           "DelegationError": "DelegationError"}


def base_axioms():
    o, t = z3.Consts("o!ax t!ax", Obj)
    i = z3.Int("i!ax")
    ax = [z3.ForAll([t], subtype(t, t)),
          z3.ForAll([o], tuple_len(o) >= 0),
          z3.ForAll([o], type_of(o) != NULL),
          z3.Distinct(*([NULL, NONE, TRUE, FALSE] + list(TYPES.values()) + list(SINGLETONS.values()))),
          z3.Const("g_some_exception_type", Obj) != NULL,
          z3.Distinct(*([NULL] + [z3.Const("g_" + g, Obj) for g in EXC_OBJ])),
          type_of(NONE) != TYPES["PyFloat_Type"], type_of(NONE) != TYPES["PyLong_Type"],
          z3.Not(subtype(type_of(NONE), TYPES["PyFloat_Type"])), z3.Not(subtype(type_of(NONE), TYPES["PyLong_Type"])),
          z3.Not(subtype(type_of(NONE), TYPES["PyTuple_Type"])),
          # well-formed tuples hold no NULL items (ctraits never sees a half-built tuple from outside)
          z3.ForAll([o, i], z3.Implies(z3.And(0 <= i, i < tuple_len(o)), tuple_item(o, i) != NULL)),
          # exact-type objects are subtype instances
          ]
    return ax


def immortal(o):
    """objects whose reference count CPython 3.12 never changes: None, True, False, the empty tuple"""
    return z3.Or(o == NONE, o == TRUE, o == FALSE, o == EMPTY_TUPLE)


def own_add(own, o, d):
    """ledger after taking (d > 0) / giving up (d < 0) |d| references to o; NULL and immortal objects do not count"""
    # one Store with a conditional increment (not a conditional between two arrays): the ledger stays a linear Store chain
    return z3.Store(own, o, own[o] + z3.If(z3.Or(o == NULL, immortal(o)), 0, d))


def is_exact(o, tname):
    return type_of(o) == TYPES[tname]


def is_inst(o, tname):
    return subtype(type_of(o), TYPES[tname])


class Api:
    def __init__(self, cx):
        self.cx = cx
        self.ex = None
        self.epoch = 0

    def has(self, name):
        return hasattr(self, "f_" + name)

    def call(self, name, args, st, k):
        return getattr(self, "f_" + name)(args, st, k)

    # ---- helpers ------------------------------------------------------------------------------------------
    def own_add(self, own, o, d):
        return own_add(own, o, d)

    def nonnull(self, st, o, what):
        return self.live(self.cx.require(st, o != NULL, "valid-deref:%s" % what), o, what)

    def live(self, st, o, what):
        """Use of an object obtained as a NEW reference (result of Python code) is valid only while this function still
        holds a reference of its own to it, or the object is one of the function's arguments (kept alive by the caller):
        nothing else is known to keep such an object alive.  (Entries borrowed from containers are not tracked here.)"""
        fresh = st.ghost.get("fresh", ())
        if st.own is None or not fresh:
            return st
        own0 = z3.Const("own0", st.own.sort())
        kept = st.ghost.get("caller_kept", ())      # the function's own arguments: kept alive by the caller
        # only uses through the very pointer that received the new reference: an equal pointer read from a field or a
        # container is kept alive by that owner, which this ledger does not see
        held = st.ghost.get("kept_by_field", ())     # handed to an owning struct field, which keeps it alive (A-CB)
        used = [f for f in fresh if z3.is_expr(o) and o.eq(f) and not any(f.eq(h) for h in held)]
        if not used:
            return st
        cond = z3.And(*[z3.Or(st.own[f] > own0[f], immortal(f), *[f == p for p in kept]) for f in used])
        return self.cx.require(st, cond, "valid-deref:live-reference:%s" % what)

    def protect_borrowed(self, st, args, what):
        """A pointer borrowed from an instance dictionary may be handed to code that runs arbitrary Python (a type slot, a trait
        handler, a Python-level call) only while this function holds a reference of its own to it (or it is immortal / one of the
        function's own arguments): the Python code may replace or delete the dictionary entry, which may be the last owner, and
        the callee would go on using a freed object."""
        if st.own is None:
            return st
        borrowed = st.ghost.get("borrowed_values", ())
        if not borrowed:
            return st
        own0 = z3.Const("own0", st.own.sort())
        kept = st.ghost.get("caller_kept", ())
        for a in args:
            if z3.is_expr(a) and a.sort() == Obj and any(a.eq(b) for b in borrowed):
                cond = z3.Or(a == NULL, st.own[a] > own0[a], immortal(a), *[a == p for p in kept])
                st = self.cx.require(st, cond, "valid-deref:borrowed-from-the-instance-dictionary-and-unprotected-across-python-code:%s" % what)
        return st

    def own_inc(self, st, o, d=1):
        if st.own is None:
            return st
        return st.with_own(own_add(st.own, o, d))

    def fresh_obj(self, prefix, st):
        """a new reference to some non-NULL object (possibly an existing one: results of Python code may alias)"""
        r = self.cx.fresh(prefix, Obj)
        st = st.gset("fresh", st.ghost.get("fresh", ()) + (r,))
        return r, self.own_inc(st.assume(r != NULL), r)

    def havoc(self, st, why):
        """A-HAVOC: a call that runs Python code may change every mutable field and every dict / list"""
        self.epoch += 1
        mem = {}
        for f, srt in FIELD_SORTS.items():
            mem[f] = self.cx.fresh("fld_%s@%d" % (f, self.epoch), z3.ArraySort(Obj, srt))
        for f in ("@dict", "@listlen", "@listitem"):
            if f in st.mem:
                mem[f] = self.cx.fresh("%s@%d" % (f[1:], self.epoch), st.mem[f].sort())
        keep = getattr(self.cx, "havoc_keeps", None)
        st2 = st._copy(mem=mem).gset("epoch", self.epoch).log(("python", why))
        if keep is not None:
            st2 = keep(self, st, st2)
        return st2

    def python_call(self, st, why, k_ok, k_err, result_prefix="res"):
        """generic outcome pair of a call that runs Python code: a new reference, or NULL with some exception"""
        st1 = self.havoc(st, why)
        out = []
        r, st_ok = self.fresh_obj(result_prefix, st1.assume(st1.exc == 0) if False else st1)
        out += k_ok(r, st_ok)
        e = self.cx.fresh("exc", INT)
        st_err = st1.assume(e >= 1).with_exc(e).gset("last_call_exc", e)
        out += k_err(st_err)
        return out

    def exc_code(self, o):
        """error-indicator code of an exception class object"""
        t = z3.IntVal(EXC_OTHER_BASE)
        for gname, ename in EXC_OBJ.items():
            t = z3.If(o == z3.Const("g_" + gname, Obj), z3.IntVal(EXC[ename]), t)
        return t

    def exc_matches(self, cur, cls_obj):
        """PyErr_GivenExceptionMatches for the classes ctraits tests (TypeError, AttributeError, KeyError ...):
        subclass relations among the *named* kinds: DelegationError < TraitError; the rest unrelated; 'other'
        exceptions (codes >= 100) match none of them (A-EXC: user code raising subclasses of TypeError etc. is
        modelled by the named kind itself)."""
        code = self.exc_code(cls_obj)
        return z3.Or(cur == code, z3.And(code == EXC["TraitError"], cur == EXC["DelegationError"]))

    # ---- reference counting -----------------------------------------------------------------------------------
    def f_Py_INCREF(self, a, st, k):
        st = self.nonnull(st, a[0], "Py_INCREF")
        return k(None, self.own_inc(st, a[0]))

    def f_Py_DECREF(self, a, st, k):
        st = self.nonnull(st, a[0], "Py_DECREF")
        return k(None, self.own_inc(st, a[0], -1))

    def f_Py_XINCREF(self, a, st, k):
        if st.own is None:
            return k(None, st)
        return k(None, st.with_own(own_add(st.own, a[0], 1)))

    def f_Py_XDECREF(self, a, st, k):
        if st.own is None:
            return k(None, st)
        return k(None, st.with_own(own_add(st.own, a[0], -1)))

    def f_Py_NewRef(self, a, st, k):
        st = self.nonnull(st, a[0], "Py_NewRef")
        return k(a[0], self.own_inc(st, a[0]))

    # ---- type tests (pure) --------------------------------------------------------------------------------
    def f_Py_TYPE(self, a, st, k):
        st = self.nonnull(st, a[0], "Py_TYPE")
        return k(type_of(a[0]), st)

    def f_Py_IS_TYPE(self, a, st, k):
        st = self.nonnull(st, a[0], "Py_IS_TYPE")
        return k(type_of(a[0]) == a[1], st)

    def f_PyObject_TypeCheck(self, a, st, k):
        st = self.nonnull(st, a[0], "PyObject_TypeCheck")
        return k(subtype(type_of(a[0]), a[1]), st)

    def f_PyType_HasFeature(self, a, st, k):
        t, flag = a
        fv = z3.simplify(as_int(flag))
        if not z3.is_int_value(fv) or fv.as_long() not in FLAG_TYPES:
            raise Unsupported("PyType_HasFeature with flag %s" % fv)
        return k(subtype(t, TYPES[FLAG_TYPES[fv.as_long()]]), st)

    f_PyType_FastSubclass = f_PyType_HasFeature

    def f_PyType_IsSubtype(self, a, st, k):
        return k(subtype(a[0], a[1]), st)

    def f_PyCallable_Check(self, a, st, k):
        # CPython: `if (x == NULL) return 0;` -- a NULL argument is answered, not dereferenced
        return self.cx.branch(st, a[0] == NULL, lambda s: k(z3.BoolVal(False), s),
                              lambda s: k(callable_(a[0]), self.live(s, a[0], "PyCallable_Check")))

    # ---- floats / ints -----------------------------------------------------------------------------------------
    def f_PyFloat_AS_DOUBLE(self, a, st, k):
        st = self.nonnull(st, a[0], "PyFloat_AS_DOUBLE")
        st = self.cx.require(st, is_inst(a[0], "PyFloat_Type"), "valid-deref:PyFloat_AS_DOUBLE-on-a-float")
        return k(float_val(a[0]), st)

    def f_PyFloat_AsDouble(self, a, st, k):
        """exact floats: their value, no Python code; anything else: __float__ / __index__ (Python code) ->
        a value, or -1.0 with an exception (TypeError when the object has no such protocol)."""
        o = a[0]
        st = self.nonnull(st, o, "PyFloat_AsDouble")
        has_proto = z3.Function("has_float_protocol", Obj, z3.BoolSort())(o)

        def exact(s):
            return k(float_val(o), s)

        def other(s):
            out = []
            s1 = self.havoc(s, "PyFloat_AsDouble")
            v = z3.Function("as_double_result", Obj, INT, F64)(o, z3.IntVal(self.epoch))
            ok = z3.Function("as_double_ok", Obj, INT, z3.BoolSort())(o, z3.IntVal(self.epoch))
            out += self.cx.branch(s1, z3.And(has_proto, ok), lambda t: k(v, t.log(("proto", "float", o, True, v, None))), lambda t: [])
            e = self.cx.fresh("exc", INT)
            s_err = s1.assume(z3.Or(z3.Not(has_proto), z3.Not(ok)), e >= 1, z3.Implies(z3.Not(has_proto), e == EXC["TypeError"]))
            if self.cx.feasible(s_err):
                out += k(z3.FPVal(-1.0, F64), s_err.with_exc(e).log(("proto", "float", o, False, None, e)))
            return out
        return self.cx.branch(st, is_inst(o, "PyFloat_Type"), exact, other)

    def f_PyFloat_FromDouble(self, a, st, k):
        r, st2 = self.fresh_obj("newfloat", st)
        return k(r, st2.assume(is_exact(r, "PyFloat_Type"), float_val(r) == a[0], subtype(type_of(r), TYPES["PyFloat_Type"])))

    def f_PyLong_AsLong(self, a, st, k):
        o = a[0]
        if self.cx.feasible(st, o == NULL):
            # CPython: PyLong_AsLong(NULL) is PyErr_BadInternalCall(): -1 with SystemError, no dereference
            return k(z3.IntVal(-1), st.assume(o == NULL).with_exc(EXC["SystemError"])) + (
                self.f_PyLong_AsLong(a, st.assume(o != NULL), k) if self.cx.feasible(st, o != NULL) else [])
        st = self.live(st, o, "PyLong_AsLong")

        def isint(s):
            return self.cx.branch(s, long_fits(o), lambda t: k(long_val(o), t),
                                  lambda t: k(z3.IntVal(-1), t.with_exc(EXC["OverflowError"])))

        def other(s):
            out = []
            s1 = self.havoc(s, "PyLong_AsLong(__index__)")
            v = self.cx.fresh("aslong", INT)
            out += k(v, s1)
            e = self.cx.fresh("exc", INT)
            out += k(z3.IntVal(-1), s1.assume(e >= 1).with_exc(e))
            return out
        return self.cx.branch(st, is_inst(o, "PyLong_Type"), isint, other)

    def f_PyLong_FromLong(self, a, st, k):
        r, st2 = self.fresh_obj("newint", st)
        return k(r, st2.assume(is_exact(r, "PyLong_Type"), long_val(r) == as_int(a[0]), long_fits(r)))

    f_PyLong_FromUnsignedLong = f_PyLong_FromLong
    f_PyLong_FromSsize_t = f_PyLong_FromLong

    # ---- tuples ---------------------------------------------------------------------------------------------
    def f_PyTuple_GET_SIZE(self, a, st, k):
        st = self.nonnull(st, a[0], "PyTuple_GET_SIZE")
        st = self.cx.require(st, is_inst(a[0], "PyTuple_Type"), "valid-deref:PyTuple_GET_SIZE-on-a-tuple")
        return k(tuple_len(a[0]), st)

    def f_PyTuple_GET_ITEM(self, a, st, k):
        t, i = a[0], as_int(a[1])
        st = self.nonnull(st, t, "PyTuple_GET_ITEM")
        st = self.cx.require(st, is_inst(t, "PyTuple_Type"), "valid-deref:PyTuple_GET_ITEM-on-a-tuple")
        st = self.cx.require(st, z3.And(0 <= i, i < tuple_len(t)), "bounds:PyTuple_GET_ITEM", witness={"index": i, "len": tuple_len(t)})
        return k(tuple_item(t, i), st)

    # ---- error indicator --------------------------------------------------------------------------------------
    def f_PyErr_Occurred(self, a, st, k):
        return k(z3.If(st.exc != 0, self.cx.const_obj("some_exception_type"), NULL), st)

    def f_PyErr_Clear(self, a, st, k):
        return k(None, st.with_exc(0))

    def f_PyErr_ExceptionMatches(self, a, st, k):
        return k(z3.And(st.exc != 0, self.exc_matches(st.exc, a[0])), st)

    def f_PyErr_SetString(self, a, st, k):
        return k(None, st.with_exc(self.exc_code(a[0])))

    def f_PyErr_SetObject(self, a, st, k):
        return k(None, st.with_exc(self.exc_code(a[0])))

    def f_PyErr_Format(self, a, st, k):
        return k(NULL, st.with_exc(self.exc_code(a[0])))

    def f_PyErr_SetNone(self, a, st, k):
        return k(None, st.with_exc(self.exc_code(a[0])))

    # ---- recursion budget (ghost `recursion_depth`: Enter/Leave pairs open around the current point) -------
    def f_Py_EnterRecursiveCall(self, a, st, k):
        d = st.ghost.get("recursion_depth", 0)
        st = st.log(("enter-recursive-call",))
        return k(z3.IntVal(0), st.gset("recursion_depth", d + 1)) + k(z3.IntVal(-1), st.with_exc(EXC["RuntimeError"]))

    def f_Py_LeaveRecursiveCall(self, a, st, k):
        d = st.ghost.get("recursion_depth", 0)
        st = self.cx.require(st, z3.BoolVal(d >= 1), "valid-deref:Py_LeaveRecursiveCall-without-Enter")
        return k(None, st.log(("leave-recursive-call",)).gset("recursion_depth", max(d - 1, 0)))

    # ---- calls into Python ---------------------------------------------------------------------------------
    def f_PyObject_CallMethod(self, a, st, k):
        # a NULL receiver is not undefined behaviour: CPython reports SystemError ("null argument to internal routine")
        return self.cx.branch(st, a[0] == NULL, lambda s: k(NULL, s.with_exc(EXC["SystemError"])),
                              lambda s: self._callmethod(a, s, k))

    def _callmethod(self, a, st, k):
        rec = ("callmethod", a[0], a[1].s if isinstance(a[1], StrLit) else "?", tuple(a[3:]))
        st = st.log(rec)
        hook = getattr(self.cx, "callmethod_hook", None)
        if hook is not None:
            r = hook(self, rec, st, k)
            if r is not None:
                return r
        return self.python_call(st, "PyObject_CallMethod", k, lambda s: k(NULL, s))

    def f_PyObject_Call(self, a, st, k):
        st = self.nonnull(st, a[0], "PyObject_Call")
        st = st.log(("call", a[0], a[1], a[2] if len(a) > 2 else NULL))
        return self.python_call(st, "PyObject_Call", lambda r, s: k(r, s.gset("last_call_result", r)), lambda s: k(NULL, s))

    def f_PyObject_IsInstance(self, a, st, k):
        st = self.nonnull(st, a[0], "PyObject_IsInstance")
        s1 = self.havoc(st, "PyObject_IsInstance")
        res = z3.Function("isinstance_result", Obj, Obj, INT)(a[0], a[1])     # -1 / 0 / 1, a function of the pair (A-EQ style)
        out = []
        out += self.cx.branch(s1, res >= 0, lambda t: k(res, t.assume(res <= 1)), lambda t: [])
        e = self.cx.fresh("exc", INT)
        out += self.cx.branch(s1, res == -1, lambda t: k(res, t.assume(e >= 1).with_exc(e)), lambda t: [])
        return out

    def f_PyObject_IsTrue(self, a, st, k):
        """truth value: 1 / 0, or -1 with an exception; a function of the object; may run __bool__ / __len__ (A-HAVOC)"""
        st = self.nonnull(st, a[0], "PyObject_IsTrue")
        s1 = self.havoc(st, "PyObject_IsTrue")
        res = z3.Function("truth_result", Obj, INT)(a[0])
        out = []
        out += self.cx.branch(s1, res >= 0, lambda t: k(res, t.assume(res <= 1)), lambda t: [])
        e = self.cx.fresh("exc", INT)
        out += self.cx.branch(s1, res == -1, lambda t: k(res, t.assume(e >= 1).with_exc(e)), lambda t: [])
        return out

    def f_PySequence_Contains(self, a, st, k):
        st = self.nonnull(st, a[0], "PySequence_Contains")
        s1 = self.havoc(st, "PySequence_Contains")
        res = z3.Function("contains_result", Obj, Obj, INT)(a[0], a[1])
        out = []
        out += self.cx.branch(s1, res >= 0, lambda t: k(res, t.assume(res <= 1)), lambda t: [])
        e = self.cx.fresh("exc", INT)
        out += self.cx.branch(s1, res == -1, lambda t: k(res, t.assume(e >= 1).with_exc(e)), lambda t: [])
        return out

    def f_PyDict_GetItemWithError(self, a, st, k):
        """borrowed reference or NULL; NULL with an exception when hashing / comparing raises (runs Python code)"""
        st = self.nonnull(st, a[0], "PyDict_GetItemWithError")
        s1 = self.havoc(st, "PyDict_GetItemWithError(__hash__/__eq__)")
        res = z3.Function("dict_lookup_result", Obj, Obj, Obj)(a[0], a[1])
        raises = z3.Function("dict_lookup_raises", Obj, Obj, z3.BoolSort())(a[0], a[1])
        out = self.cx.branch(s1, z3.Not(raises), lambda t: k(res, t), lambda t: [])
        e = self.cx.fresh("exc", INT)
        out += self.cx.branch(s1, raises, lambda t: k(NULL, t.assume(e >= 1).with_exc(e)), lambda t: [])
        return out


def _py_number(name, exact_type=None):
    def f(self, a, st, k):
        o = a[0]
        st = self.nonnull(st, o, name)
        s1 = self.havoc(st, name)
        out = []
        r, s_ok = self.fresh_obj(name.lower(), s1)
        facts = [is_inst(r, "PyLong_Type")]
        if exact_type:
            facts.append(is_exact(r, exact_type))
        what = "index" if name == "PyNumber_Index" else "int"
        out += k(r, s_ok.assume(*facts).log(("proto", what, o, True, r, None)))
        e = self.cx.fresh("exc", INT)
        has = z3.Function("has_index_protocol", Obj, z3.BoolSort())(o)
        out += k(NULL, s1.assume(e >= 1, z3.Implies(z3.Not(has), e == EXC["TypeError"])).with_exc(e).log(("proto", what, o, False, None, e)))
        return out
    return f


Api.f_PyNumber_Index = _py_number("PyNumber_Index")
Api.f_PyNumber_Long = _py_number("PyNumber_Long", "PyLong_Type")


def _parse_tuple(self, a, st, k):
    """PyArg_ParseTuple(args, fmt, &targets...): on success every target is written -- 'O': a borrowed, non-NULL
    reference; 'i' / 'I' / 'n': an integer; returns 1.  On failure returns 0 with TypeError set; the targets converted
    before the failing one have already been written (the C-API gives no rollback)."""
    fmt = a[1].s if isinstance(a[1], StrLit) else None
    if fmt is None:
        raise Unsupported("PyArg_ParseTuple with a non-literal format")
    codes = [c for c in fmt if c in "OiInlkUp"]
    optional_from = None
    seen = 0
    for ch in fmt:
        if ch == "|":
            optional_from = seen
        elif ch in "OiInlkUp":
            seen += 1
    targets = a[2:]
    if len(targets) != len(codes):
        raise Unsupported("PyArg_ParseTuple format/targets mismatch")

    def write(st2, upto, optional_absent=False):
        for code, t in list(zip(codes, targets))[:upto]:
            if optional_absent:
                continue
            if code in "OU":
                v = self.cx.fresh("parsed", Obj)
                st2 = st2.assume(v != NULL)
                if code == "U":
                    st2 = st2.assume(is_inst(v, "PyUnicode_Type"))
            elif code == "I":
                v = self.cx.fresh("parsedu", BV32)
            else:
                v = self.cx.fresh("parsedi", INT)
            if not isinstance(t, Ptr):
                raise Unsupported("PyArg_ParseTuple target")
            if t.kind == "local":
                st2 = st2.set(t.a, v)
            else:
                arr = self.ex.field_array(st2, t.b)
                from .core import OWNING_FIELDS
                if t.b in OWNING_FIELDS and st2.own is not None:
                    # a borrowed pointer is written straight into an owning field: the field now counts on a reference
                    # nobody gave it (-1 until the function takes one), and what it held before is the function's to release
                    st2 = st2.with_own(own_add(own_add(st2.own, arr[t.a], 1), v, -1))
                st2 = st2.with_mem(t.b, z3.Store(arr, t.a, v)).log(("parse-store", t.b, t.a, v))
        return st2
    out = []
    out += k(z3.IntVal(1), write(st, len(codes)))
    if optional_from is not None:
        out += k(z3.IntVal(1), write(st, optional_from))
    has_field_targets = any(isinstance(t, Ptr) and t.kind == "field" for t in targets)
    fails = range(len(codes)) if has_field_targets else [0]
    for upto in fails:
        out += k(z3.IntVal(0), write(st, upto).with_exc(EXC["TypeError"]).gset("parse_failed_after", upto))
    return out


Api.f_PyArg_ParseTuple = _parse_tuple


def _tuple_new(self, a, st, k):
    n = z3.simplify(as_int(a[0]))
    if z3.is_int_value(n) and n.as_long() == 0:
        # PyTuple_New(0) is the empty-tuple singleton, immortal in the pinned CPython (3.12): not an owned reference
        return k(EMPTY_TUPLE, st.assume(EMPTY_TUPLE != NULL, is_exact(EMPTY_TUPLE, "PyTuple_Type"), is_inst(EMPTY_TUPLE, "PyTuple_Type"),
                                        tuple_len(EMPTY_TUPLE) == 0))
    r, st2 = self.fresh_obj("newtuple", st)
    return k(r, st2.assume(is_exact(r, "PyTuple_Type"), is_inst(r, "PyTuple_Type"), tuple_len(r) == as_int(a[0])))     # A-ALLOC


def _tuple_set_item(self, a, st, k):
    """steals the reference to the item"""
    t, i, v = a[0], as_int(a[1]), a[2]
    st = self.nonnull(st, t, "PyTuple_SET_ITEM")
    st = self.cx.require(st, z3.And(0 <= i, i < tuple_len(t)), "bounds:PyTuple_SET_ITEM", witness={"index": i})
    built = dict(st.ghost.get("built", {}))
    built[(t.get_id(), z3.simplify(i).as_long() if z3.is_int_value(z3.simplify(i)) else str(i))] = v
    st = st.gset("built", built)
    if st.own is not None:
        st = st.with_own(own_add(st.own, v, -1))
    return k(None, st)


def _get_value_ok(self, a, st, k):
    return None


def _tuple_pack(self, a, st, k):
    """PyTuple_Pack(n, o1..on): a new tuple holding its own references to the items (A-ALLOC: succeeds)"""
    n = z3.simplify(as_int(a[0]))
    if not z3.is_int_value(n) or n.as_long() != len(a) - 1:
        raise Unsupported("PyTuple_Pack with a symbolic count")
    st2 = st
    for i, v in enumerate(a[1:]):
        st2 = self.nonnull(st2, v, "PyTuple_Pack-item-%d" % i)
    r, st2 = self.fresh_obj("packed", st2)
    facts = [is_exact(r, "PyTuple_Type"), is_inst(r, "PyTuple_Type"), tuple_len(r) == len(a) - 1]
    facts += [tuple_item(r, z3.IntVal(i)) == v for i, v in enumerate(a[1:])]
    return k(r, st2.assume(*facts))


Api.f_PyTuple_Pack = _tuple_pack
Api.f_PyTuple_New = _tuple_new
Api.f_PyTuple_SET_ITEM = _tuple_set_item


def newly_allocated(self, st, r):
    """A-ALLOC (freshness): a newly allocated object is none of the objects the function holds pointers to, and no struct
    field of an existing object points to it.  The second part is instantiated at every later field load (core.load_field)
    against the field contents at allocation time, instead of being stated with a quantifier."""
    known = [v for v in list(st.env.values()) + list(st.ghost.get("caller_kept", ())) if z3.is_expr(v) and v.sort() == Obj and not v.eq(r)]
    snapshot = {f: self.ex.field_array(st, f) for f, srt in FIELD_SORTS.items() if srt == Obj}
    return st.assume(*[r != v for v in known]).gset("allocs", st.ghost.get("allocs", ()) + ((r, snapshot),))


def _type_generic_new(self, a, st, k):
    """A-ALLOC: allocation succeeds; the new object's fields are zero-initialised (tp_alloc)"""
    r, st2 = self.fresh_obj("newobj", st)
    st2 = newly_allocated(self, st2, r)
    for f, srt in FIELD_SORTS.items():
        arr = self.ex.field_array(st2, f)
        zero = NULL if srt == Obj else (z3.BitVecVal(0, 32) if srt == BV32 else z3.IntVal(0))
        st2 = st2.with_mem(f, z3.Store(arr, r, zero))
    return k(r, st2.gset("fresh_object", r))


Api.f_PyType_GenericNew = _type_generic_new
Api.f_PyType_GenericAlloc = _type_generic_new


def _dict_size(self, a, st, k):
    n = self.cx.fresh("dictsize", INT)
    return k(n, st.assume(n >= 0))


Api.f_PyDict_Size = _dict_size


# ---- dicts and lists (mutable Python-visible state) ----------------------------------------------------------
DICTMAP = z3.ArraySort(Obj, z3.ArraySort(Obj, Obj))        # dict object -> (key -> value or NULL)


def dict_arr(st):
    return st.mem.get("@dict", z3.Const("dict0", DICTMAP))


def list_len_arr(st):
    return st.mem.get("@listlen", z3.Const("listlen0", z3.ArraySort(Obj, INT)))


def _dict_getitem(self, a, st, k):
    """PyDict_GetItem: borrowed reference or NULL; errors of __hash__/__eq__ are suppressed (no exception is left set).
    For str keys (the only ones ctraits stores) no Python code runs."""
    d, key = a
    st = self.nonnull(st, d, "PyDict_GetItem")
    st = self.nonnull(st, key, "PyDict_GetItem(key)")
    r = dict_arr(st)[d][key]
    st = st.log(("dict-get", d, key))
    # a value borrowed from an INSTANCE DICTIONARY (obj->obj_dict, the user-mutable value store): its only known owner is that
    # dictionary, which any Python code may change (see Api.protect_borrowed)
    if z3.is_app(d) and d.decl().kind() == z3.Z3_OP_SELECT and "obj_dict" in str(d.arg(0).decl().name()):
        st = st.gset("borrowed_values", st.ghost.get("borrowed_values", ()) + (r,))
    return k(r, st)


def _dict_setitem(self, a, st, k):
    """PyDict_SetItem: does not steal; on success dict[key] = value.  Fails (-1, exception set) only when hashing the key
    fails, which cannot happen for exact str keys (A-ALLOC: no memory errors)."""
    d, key, v = a
    st = self.nonnull(st, d, "PyDict_SetItem")
    st = self.nonnull(st, key, "PyDict_SetItem(key)")
    st = self.nonnull(st, v, "PyDict_SetItem(value)")
    arr = dict_arr(st)
    ok = st.with_mem("@dict", z3.Store(arr, d, z3.Store(arr[d], key, v))).log(("dict-set", d, key, v))
    out = k(z3.IntVal(0), ok)
    e = self.cx.fresh("exc", INT)
    bad = st.assume(z3.Not(is_exact(key, "PyUnicode_Type")), e >= 1).with_exc(e)
    if self.cx.feasible(bad):
        out += k(z3.IntVal(-1), bad)
    return out


def _dict_delitem(self, a, st, k):
    d, key = a
    st = self.nonnull(st, d, "PyDict_DelItem")
    arr = dict_arr(st)
    return self.cx.branch(
        st, arr[d][key] != NULL,
        lambda s: k(z3.IntVal(0), s.with_mem("@dict", z3.Store(arr, d, z3.Store(arr[d], key, NULL))).log(("dict-del", d, key))),
        lambda s: k(z3.IntVal(-1), s.with_exc(EXC["KeyError"])))


def _dict_new(self, a, st, k):
    r, st2 = self.fresh_obj("newdict", st)
    arr = dict_arr(st2)
    empty = z3.K(Obj, NULL)
    return k(r, st2.with_mem("@dict", z3.Store(arr, r, empty)).assume(is_exact(r, "PyDict_Type")))


def _list_get_size(self, a, st, k):
    st = self.nonnull(st, a[0], "PyList_GET_SIZE")
    n = list_len_arr(st)[a[0]]
    return k(n, st.assume(n >= 0))


Api.f_PyDict_GetItem = _dict_getitem
Api.f_PyDict_SetItem = _dict_setitem
Api.f_PyDict_DelItem = _dict_delitem
Api.f_PyDict_New = _dict_new
Api.f_PyList_GET_SIZE = _list_get_size


def list_item_arr(st):
    return st.mem.get("@listitem", z3.Const("listitem0", z3.ArraySort(Obj, z3.ArraySort(INT, Obj))))


def _list_new(self, a, st, k):
    """PyList_New(n): a new list of n NULL slots (A-ALLOC: succeeds)"""
    n = as_int(a[0])
    r, st2 = self.fresh_obj("newlist", st)
    la, ia = list_len_arr(st2), list_item_arr(st2)
    st2 = st2.with_mem("@listlen", z3.Store(la, r, n)).with_mem("@listitem", z3.Store(ia, r, z3.K(INT, NULL)))
    # a newly allocated object is none of the objects the function already holds pointers to
    known = [v for v in list(st.env.values()) + list(st.ghost.get("caller_kept", ())) if z3.is_expr(v) and v.sort() == Obj]
    return k(r, st2.assume(is_exact(r, "PyList_Type"), is_inst(r, "PyList_Type"), n >= 0, *[r != v for v in known]))


def _list_get_item(self, a, st, k):
    """borrowed reference to slot i"""
    l, i = a[0], as_int(a[1])
    st = self.nonnull(st, l, "PyList_GET_ITEM")
    st = self.cx.require(st, z3.And(0 <= i, i < list_len_arr(st)[l]), "bounds:PyList_GET_ITEM", witness={"index": i, "len": list_len_arr(st)[l]})
    return k(list_item_arr(st)[l][i], st)


def _list_set_item(self, a, st, k):
    """PyList_SET_ITEM(l, i, v): fills slot i of a NEW list, stealing the reference to v (the old content is not released)"""
    l, i, v = a[0], as_int(a[1]), a[2]
    st = self.nonnull(st, l, "PyList_SET_ITEM")
    st = self.cx.require(st, z3.And(0 <= i, i < list_len_arr(st)[l]), "bounds:PyList_SET_ITEM", witness={"index": i, "len": list_len_arr(st)[l]})
    ia = list_item_arr(st)
    st = self.cx.require(st, ia[l][i] == NULL, "bounds:PyList_SET_ITEM-overwrites-a-filled-slot")
    st = st.with_mem("@listitem", z3.Store(ia, l, z3.Store(ia[l], i, v)))
    if st.own is not None:
        st = st.with_own(own_add(st.own, v, -1))
    return k(None, st)


def _build_value(self, a, st, k):
    """Py_BuildValue(fmt, ...): a new object built from the arguments; 'O' items must be non-NULL (A-ALLOC: succeeds)"""
    fmt = a[0].s if isinstance(a[0], StrLit) else None
    if fmt is None:
        raise Unsupported("Py_BuildValue with a non-literal format")
    codes = [c for c in fmt if c in "Oisn"]
    if len(codes) != len(a) - 1 or any(c not in "OisnN() " for c in fmt):
        raise Unsupported("Py_BuildValue format %r" % fmt)
    st2 = st
    for c, v in zip(codes, a[1:]):
        if c == "O":
            st2 = self.nonnull(st2, v, "Py_BuildValue-O-item")
    r, st2 = self.fresh_obj("built", st2)
    facts = []
    if len(codes) > 1:
        facts += [is_exact(r, "PyTuple_Type"), is_inst(r, "PyTuple_Type"), tuple_len(r) == len(codes)]
        facts += [tuple_item(r, z3.IntVal(i)) == v for i, (c, v) in enumerate(zip(codes, a[1:])) if c == "O"]
    return k(r, st2.assume(*facts))


Api.f_PyList_New = _list_new
Api.f_PyList_GET_ITEM = _list_get_item
Api.f_PyList_SET_ITEM = _list_set_item
Api.f_Py_BuildValue = _build_value


str_val = z3.Function("str_val", Obj, z3.StringSort())


def _unicode_concat(self, a, st, k):
    """PyUnicode_Concat(left, right): a new str, or NULL with TypeError when an operand is not a str (A-ALLOC)"""
    l, r = a
    st = self.nonnull(st, l, "PyUnicode_Concat")
    st = self.nonnull(st, r, "PyUnicode_Concat(right)")
    both = z3.And(is_inst(l, "PyUnicode_Type"), is_inst(r, "PyUnicode_Type"))

    def ok(s):
        res, s2 = self.fresh_obj("newstr", s)
        return k(res, s2.assume(is_exact(res, "PyUnicode_Type"), is_inst(res, "PyUnicode_Type"),
                                str_val(res) == z3.Concat(str_val(l), str_val(r))))
    return self.cx.branch(st, both, ok, lambda s: k(NULL, s.with_exc(EXC["TypeError"])))


def _getattr(self, a, st, k):
    st = self.nonnull(st, a[0], "PyObject_GetAttr")
    st = st.log(("getattr-api", a[0], a[1]))
    s1 = self.havoc(st, "PyObject_GetAttr")
    res = z3.Function("getattr_result", Obj, Obj, Obj)(a[0], a[1])
    out = self.cx.branch(s1, res != NULL, lambda s: k(res, self.own_inc(s, res)), lambda s: [])
    e = self.cx.fresh("exc", INT)
    out += self.cx.branch(s1, res == NULL, lambda s: k(NULL, s.assume(e >= 1).with_exc(e)), lambda s: [])
    return out


Api.f_PyUnicode_Concat = _unicode_concat


def _unicode_get_length(self, a, st, k):
    """PyUnicode_GET_LENGTH(str): the number of code points (>= 0); the argument must be a str"""
    st = self.nonnull(st, a[0], "PyUnicode_GET_LENGTH")
    st = self.cx.require(st, is_inst(a[0], "PyUnicode_Type"), "valid-deref:PyUnicode_GET_LENGTH-on-a-str")
    n = z3.Function("str_length", Obj, INT)(a[0])
    return k(n, st.assume(n >= 0))


def _unicode_read_char(self, a, st, k):
    """PyUnicode_READ_CHAR(str, i): the code point at i; i must be inside the string"""
    st = self.nonnull(st, a[0], "PyUnicode_READ_CHAR")
    n = z3.Function("str_length", Obj, INT)(a[0])
    i = as_int(a[1])
    st = self.cx.require(st, z3.And(is_inst(a[0], "PyUnicode_Type"), 0 <= i, i < n), "bounds:PyUnicode_READ_CHAR")
    c = z3.Function("str_char", Obj, INT, INT)(a[0], i)
    return k(c, st.assume(c >= 0))


Api.f_PyUnicode_GET_LENGTH = _unicode_get_length
Api.f_PyUnicode_READ_CHAR = _unicode_read_char
def _getattr_string(self, a, st, k):
    """PyObject_GetAttrString(o, "name"): a new reference or NULL with an exception; runs Python code"""
    st = self.nonnull(st, a[0], "PyObject_GetAttrString")
    st = st.log(("getattr-string", a[0], a[1].s if isinstance(a[1], StrLit) else "?"))
    return self.python_call(st, "PyObject_GetAttrString", k, lambda s: k(NULL, s), result_prefix="attr")


Api.f_PyObject_GetAttrString = _getattr_string
Api.f_PyObject_GetAttr = _getattr


def _generic_getattr(self, a, st, k):
    """PyObject_GenericGetAttr: the plain Python attribute lookup (descriptors may run Python code)"""
    st = self.nonnull(st, a[0], "PyObject_GenericGetAttr")
    st = st.log(("generic-getattr", a[0], a[1]))
    s1 = self.havoc(st, "PyObject_GenericGetAttr")
    res = z3.Function("generic_getattr_result", Obj, Obj, Obj)(a[0], a[1])
    out = self.cx.branch(s1, res != NULL, lambda s: k(res, self.own_inc(s, res)), lambda s: [])
    e = self.cx.fresh("exc", INT)
    out += self.cx.branch(s1, res == NULL, lambda s: k(NULL, s.assume(e >= 1).with_exc(e)), lambda s: [])
    return out


Api.f_PyObject_GenericGetAttr = _generic_getattr
