"""Verification units: one (contract, overload) pair = one run of the VC generator
over the real source of one function, yielding named obligations.
"""
import hashlib
import time
import traceback

import z3

from .pyvc import core, source
from .pyvc.builtins_model import Builtins
from .pyvc.values import *  # noqa: F401,F403
from .solve import Obligation, prove, prove_groups

REGISTRY = {}        # (class or None, function name) -> Contract instance
BY_ID = {}           # "path:qualname" -> Contract


class Contract:
    """Sidecar contract for one function of /repo.  Subclasses set:
       path, qualname, properties, overloads, class_paths, and implement
       setup / post / (optionally) summary."""
    path = None
    qualname = None
    properties = ()
    overloads = ("default",)
    class_paths = ()           # modules whose classes the engine may need (method resolution)
    inline = ()                # (class, method) pairs executed from their real AST at call sites
    assumptions = ()           # assumption tags of DESIGN section 3 this contract relies on
    timeout_ms = 60000

    @property
    def cid(self):
        return "%s:%s" % (self.path, self.qualname)

    @property
    def owner_class(self):
        parts = self.qualname.split(".")
        return ".".join(parts[:-1]) if len(parts) > 1 and "<locals>" not in self.qualname else None

    @property
    def fname(self):
        return self.qualname.split(".")[-1]

    # -- to be provided by concrete contracts
    def configure(self, cx, I, ov):
        """Install hooks / opaque-attribute handlers in the context."""

    def setup(self, cx, I, ov):
        """-> (state, positional args, keyword args, info)"""
        raise NotImplementedError

    def post(self, cx, I, ov, info, kind, payload, st):
        """-> list of (clause name, z3 Bool[, witness dict]) that must hold for this outcome."""
        raise NotImplementedError

    def covers(self, cx, ov, info):
        """-> list of (name, predicate(kind, payload, st) -> bool|z3 Bool) that must be reachable."""
        return []

    def summary(self, I, self_ref, args, kwargs, st, k):
        raise Unsupported("contract %s has no call-site summary" % self.cid)


def register(c):
    inst = c() if isinstance(c, type) else c
    REGISTRY[(inst.owner_class, inst.fname)] = inst
    BY_ID[inst.cid] = inst
    return c


class UnitResult:
    def __init__(self, contract, ov):
        self.cid, self.ov = contract.cid, ov
        self.properties = list(contract.properties)
        self.results = []
        self.undecided_reason = None
        self.source_sha = None
        self.paths = 0
        self.secs = 0.0
        self.hints = []
        self.assumptions = list(contract.assumptions)
        self.notes = []
        self.lines = None

    def as_dict(self):
        return dict(cid=self.cid, overload=self.ov, properties=self.properties, source_sha256=self.source_sha,
                    paths=self.paths, secs=round(self.secs, 2), undecided_reason=self.undecided_reason,
                    hints=self.hints, assumptions=self.assumptions, notes=self.notes, lines=self.lines,
                    results=[r.as_dict() for r in self.results])


KNOWN_CONSTS = {"Undefined", "Uninitialized", "Missing", "Self"}
KNOWN_BUILTIN_IMPORTS = {("weakref", "ref"): "weakref.ref", ("copy", "deepcopy"): "copy.deepcopy",
                         ("copy", "copy"): "copy.copy", ("operator", "index"): "operator.index"}


def module_env(cx, relpath):
    """Bindings of the module's top-level names, read from its AST: imports, functions, classes."""
    import ast
    src, tree, funcs, classes = source.index_module(relpath)
    env = {}
    for n in ast.walk(tree):
        if isinstance(n, ast.Import):
            for a in n.names:
                env[a.asname or a.name.split(".")[0]] = VModule(a.name)
        elif isinstance(n, ast.ImportFrom):
            for a in n.names:
                nm = a.asname or a.name
                if a.name in EXC_PARENT:
                    env[nm] = VExcClass(a.name)
                elif a.name in KNOWN_CONSTS:
                    env[nm] = cx.const(a.name)
                elif (n.module, a.name) in KNOWN_BUILTIN_IMPORTS:
                    env[nm] = VFunc("builtin", name=KNOWN_BUILTIN_IMPORTS[(n.module, a.name)])
                elif a.name[:1].isupper() and a.name in cx.classes:
                    env[nm] = VFunc("class", name=a.name)
                else:
                    env[nm] = VFunc("repo", name=a.name, module=n.module, node=None)
    for q, node in funcs.items():
        if "." not in q:
            env[q] = VFunc("repo", name=q, module=relpath, node=node)
    for q in classes:
        if "." not in q:
            env[q] = VFunc("class", name=q) if q not in EXC_PARENT else VExcClass(q)
    return env


def make_context(contract, ov):
    classes = source.class_table(list(contract.class_paths) or [contract.path])
    cx = core.Cx(classes=classes, contracts=REGISTRY)
    cx.module_globals = module_env(cx, contract.path)
    cx.inline = set(contract.inline)
    cx.cur_class = contract.owner_class
    cx.target = (contract.owner_class, contract.fname)
    bi = Builtins(cx)
    I = core.Interp(cx, bi)
    contract.configure(cx, I, ov)
    return cx, I


def flatten(goal, guard=None):
    """Clause splitting: And(a, b) -> [a, b]; Implies(g, And(a, b)) -> [g=>a, g=>b] (recursively)."""
    if z3.is_and(goal):
        out = []
        for c in goal.children():
            out += flatten(c, guard)
        return out
    if z3.is_implies(goal):
        g, body = goal.children()
        g2 = g if guard is None else z3.And(guard, g)
        return flatten(body, g2)
    if guard is not None:
        return [z3.Implies(guard, goal)]
    return [goal]


class CContract(Contract):
    """Sidecar contract for one function of traits/ctraits.c (executed by vc/cvc)."""
    lang = "c"
    path = "traits/ctraits.c"
    own = False               # check reference neutrality (C18) in this unit

    @property
    def owner_class(self):
        return None

    @property
    def fname(self):
        return self.qualname

    def c_setup(self, cx, ex, ov):
        """-> (state, argument terms, info)"""
        raise NotImplementedError

    def c_post(self, cx, ex, ov, info, ret, st):
        raise NotImplementedError


def generate_c(contract, ov):
    from .cvc import core as C, api as A, front
    r = front.function(contract.qualname)
    if r is None:
        raise Unsupported("C function %s not found in ctraits.c" % contract.qualname)
    decl, params, rty, sha = r
    cx = C.CCx()
    cx.axioms += A.base_axioms()
    api = A.Api(cx)
    ex = C.CExec(cx, api, front)
    ex.label_ids = C.label_ids(decl)
    contract.configure(cx, ex, ov)
    st, args, info = contract.c_setup(cx, ex, ov)
    if contract.own or getattr(contract, "own_overloads", None) and ov in contract.own_overloads:
        own0 = z3.Const("own0", z3.ArraySort(C.Obj, z3.IntSort()))
        st = st.with_own(own0)
        info["own0"] = own0
        st = st.gset("caller_kept", tuple(a for a in args if z3.is_expr(a) and a.sort() == C.Obj))
    outcomes = ex.run_function(decl, args, st, lambda v, st2: [("return", v, st2)])
    name0 = "%s[%s]" % (contract.cid, ov)
    obs = []
    cover_preds = contract.covers(cx, ov, info)
    cover_hits = {n: [] for n, _ in cover_preds}
    for idx, (kind, ret, st2) in enumerate(outcomes):
        for cl in contract.c_post(cx, ex, ov, info, ret, st2):
            cname, goal = cl[0], cl[1]
            w = dict(info.get("witness", {}))
            w.update(cl[2] if len(cl) > 2 else {})
            props = cl[3] if len(cl) > 3 else contract.properties
            goal = goal if z3.is_expr(goal) else z3.BoolVal(bool(goal))
            parts = flatten(goal)
            for pi, part in enumerate(parts):
                obs.append(Obligation("%s/%s" % (name0, cname), list(st2.pc), part, kind=cname.split(":")[0], props=props,
                                      witness=w, concretise=info.get("concretise"),
                                      meta=dict(path=idx, part=pi, nparts=len(parts), chain="%s#%d" % (cname, idx))))
        for n, pred in cover_preds:
            c = pred(ret, st2)
            if c is True or (z3.is_expr(c) and not z3.is_false(z3.simplify(c))):
                cover_hits[n].append((st2, c))
    seen = set()
    for (n, pc, goal, wit) in cx.side_obligations:
        key = (n, tuple(x.get_id() for x in pc), goal.get_id())
        if key in seen:
            continue
        seen.add(key)
        w = dict(info.get("witness", {}))
        w.update(wit)
        kindname = n.split(":")[0]
        props = contract.side_props.get(kindname, contract.properties) if hasattr(contract, "side_props") else contract.properties
        if kindname.startswith("inv-"):
            # a loop invariant carries every clause of the unit (the ledger and the error indicator included): it belongs to
            # all the properties the unit is checked for
            props = tuple(dict.fromkeys(tuple(contract.properties) + tuple(getattr(contract, "extra_properties", ()))))
        obs.append(Obligation("%s/%s" % (name0, n), pc, goal, kind=kindname, props=props, witness=w,
                              concretise=info.get("concretise")))
    for n, hits in cover_hits.items():
        if not hits:
            obs.append(Obligation("%s/cover:%s" % (name0, n), [], z3.BoolVal(False), kind="cover", props=contract.properties,
                                  expect_sat=True, meta=dict(note="no path matches")))
        else:
            # reachable if one of the matching paths is satisfiable; a few candidates are enough (tried in turn)
            pick = hits if len(hits) <= 4 else [hits[0], hits[len(hits) // 3], hits[2 * len(hits) // 3], hits[-1]]
            alts = [(list(st2.pc), z3.BoolVal(True) if c is True else c) for (st2, c) in pick]
            obs.append(Obligation("%s/cover:%s" % (name0, n), alts[0][0], alts[0][1], kind="cover",
                                  props=contract.properties, expect_sat=True, meta=dict(alternatives=alts[1:])))
    line = decl.get("loc", {}).get("line") or (decl.get("loc", {}).get("expansionLoc") or {}).get("line")
    return cx, obs, dict(sha=sha, paths=len(outcomes), lines=(line, None))


def generate(contract, ov):
    """Symbolically execute the real function; -> (cx, obligations, meta)."""
    if getattr(contract, "lang", "py") == "c":
        return generate_c(contract, ov)
    if getattr(contract, "lang", "py") == "data":
        # a lemma over data read from the real sources on this run (class attributes, enum values, C tables)
        return contract.data_obligations(ov)
    fn, seg, sha, owner = source.get_function(contract.path, contract.qualname)
    from .pyvc import values as _values
    _values.reset_defs()
    cx, I = make_context(contract, ov)
    import ast as _ast
    cx.loop_ids = {}
    for n in _ast.walk(fn):          # breadth-first; re-number in source order
        pass
    loops_in_order = sorted([n for n in _ast.walk(fn) if isinstance(n, (_ast.For, _ast.While))], key=lambda n: (n.lineno, n.col_offset))
    for i, n in enumerate(loops_in_order):
        cx.loop_ids[id(n)] = i
    if hasattr(contract, "segment"):
        # a cut-point contract: a statement range of the function, selected structurally from its real AST, executed from
        # an arbitrary state described by the contract (the variables live at that point)
        stmts = contract.segment(fn)
        st, env, info = contract.segment_env(cx, I, ov)
        st = st.gset("__class__", contract.owner_class)
        outcomes = I.block(stmts, st.with_env(dict(env)))
        seg_src = "\n".join(_ast.unparse(x) for x in stmts)
        import hashlib as _hl
        sha = _hl.sha256(seg_src.encode()).hexdigest()
    else:
        st, args, kwargs, info = contract.setup(cx, I, ov)
        st = st.gset("__class__", contract.owner_class)
        closure = dict(info.get("closure_env", {}))       # free variables of a nested function (its enclosing scope)
        outcomes = I.bind_params(fn, args, kwargs, st, lambda env, st2: I.block(fn.body, st2.with_env({**closure, **env})))
    obs = []
    name0 = "%s[%s]" % (contract.cid, ov)
    cover_preds = contract.covers(cx, ov, info)
    cover_hits = {n: [] for n, _ in cover_preds}
    npaths = 0
    for idx, (kind, payload, st2) in enumerate(outcomes):
        if kind == "next":
            kind, payload = "return", NONE
        if kind not in ("return", "raise"):
            raise Unsupported("outcome %s escapes the function" % kind)
        npaths += 1
        for cl in contract.post(cx, I, ov, info, kind, payload, st2):
            cname, goal = cl[0], cl[1]
            wit = cl[2] if len(cl) > 2 else {}
            props = cl[3] if len(cl) > 3 else contract.properties
            w = dict(info.get("witness", {}))
            w.update(wit)
            goal = goal if z3.is_expr(goal) else z3.BoolVal(bool(goal))
            parts = flatten(goal)
            chain = "%s#%d" % (cname, idx)
            for pi, part in enumerate(parts):
                obs.append(Obligation("%s/%s" % (name0, cname), list(st2.pc), part,
                                      kind=cname.split(":")[0], props=props, witness=w,
                                      concretise=info.get("concretise"),
                                      meta=dict(path=idx, outcome=kind, part=pi, nparts=len(parts), chain=chain)))
        for n, pred in cover_preds:
            c = pred(kind, payload, st2)
            if c is True or (z3.is_expr(c) and not z3.is_false(z3.simplify(c))):
                cover_hits[n].append((st2, c))
    all_props = tuple(dict.fromkeys(tuple(contract.properties) + tuple(getattr(contract, "extra_properties", ()))))
    for (n, pc, goal) in cx.side_obligations:
        # loop invariants carry every clause of the unit: they belong to all the properties the unit is checked for
        obs.append(Obligation("%s/%s" % (name0, n), pc, goal, kind=n.split("@")[0].split(":")[0],
                              props=all_props if n.startswith("inv-") else contract.properties, witness=dict(info.get("witness", {})),
                              concretise=info.get("concretise")))
    for n, hits in cover_hits.items():
        # cover: some path satisfying the predicate is feasible
        if not hits:
            obs.append(Obligation("%s/cover:%s" % (name0, n), [], z3.BoolVal(False), kind="cover",
                                  props=contract.properties, expect_sat=True, meta=dict(note="no path matches")))
        else:
            # reachable if one of the matching paths is satisfiable; a few candidates are enough (tried in turn)
            pick = hits if len(hits) <= 4 else [hits[0], hits[len(hits) // 3], hits[2 * len(hits) // 3], hits[-1]]
            alts = [(list(st2.pc), z3.BoolVal(True) if c is True else c) for (st2, c) in pick]
            obs.append(Obligation("%s/cover:%s" % (name0, n), alts[0][0], alts[0][1], kind="cover",
                                  props=contract.properties, expect_sat=True, meta=dict(alternatives=alts[1:])))
    meta = dict(sha=sha, paths=npaths, lines=(fn.lineno, fn.end_lineno))
    return cx, obs, meta


def verify_unit(contract, ov, timeout_ms=None, workers=1, only_prop=None):
    ur = UnitResult(contract, ov)
    t0 = time.time()
    try:
        cx, obs, meta = generate(contract, ov)
        ur.source_sha, ur.paths, ur.lines = meta["sha"], meta["paths"], meta["lines"]
        if only_prop is not None:
            obs = [ob for ob in obs if only_prop in ob.props]
        ur.hints = sorted(set(cx.hints))
        ur.notes = list(cx.notes)
        from .pyvc import values as _values
        if getattr(contract, "lang", "py") == "c":
            axioms = list(cx.axioms)
        else:
            axioms = list(cx.axioms) + cx.distinct_consts_axiom() + list(_values.DEFS)
        groups, bychain = [], {}
        for ob in obs:
            ch = ob.meta.get("chain")
            if ch is None:
                groups.append([ob])
            elif ch in bychain:
                bychain[ch].append(ob)
            else:
                bychain[ch] = [ob]
                groups.append(bychain[ch])
        budget = timeout_ms or contract.timeout_ms
        ur.results = prove_groups(groups, axioms, budget, workers)
        # second chance: an obligation left undecided (solver timeout under load) is retried alone with a tripled budget
        flat = [ob for g in groups for ob in g]
        retry = [i for i, r in enumerate(ur.results) if r.status == "undecided"]
        if retry and len(retry) <= 8:
            again = prove_groups([[flat[i]] for i in retry], axioms, budget * 3, min(workers, len(retry)))
            for i, r in zip(retry, again):
                if r.status != "undecided":
                    r.reason = (r.reason + "; " if r.reason else "") + "decided on the second attempt (tripled budget)"
                    ur.results[i] = r
        if not obs:
            ur.undecided_reason = "no obligations generated"
    except Unsupported as e:
        ur.undecided_reason = "unsupported: %s" % e
    except Exception as e:      # internal error of the generator: never a violation
        ur.undecided_reason = "internal: %s: %s\n%s" % (type(e).__name__, e, traceback.format_exc()[-1500:])
    ur.secs = time.time() - t0
    return ur
