"""Sound hints for nonlinear integer arithmetic.

For every pair of product terms u1*d and u2*d that share a factor d (up to sign) in a query, the
following theorem instances of integer arithmetic are added as hypotheses (they mention only terms
already in the query, so they never add facts about the code):

  H1  d > 0  =>  (u1 < u2  <=>  u1*d < u2*d)  and  (u1 = u2 <=> u1*d = u2*d)      (d < 0: reversed)
  H2  u1 - u2 = k  =>  u1*d - u2*d = k*d                         for k in -2..2
  H3  d > 0 and u1 - u2 >= 3  =>  u1*d - u2*d >= 3*d   (and the three symmetric variants)

Each product is also paired with the pseudo-product 0*d.  With these instances the slice-normalisation
obligations become (almost) linear and discharge in well under a second instead of timing out.
"""
import z3


def _strip(e):
    """e = sign * core with core not a unary minus / numeral multiple; -> (sign, core)"""
    sign = 1
    while True:
        if z3.is_app(e) and e.decl().kind() == z3.Z3_OP_UMINUS:
            sign, e = -sign, e.arg(0)
            continue
        if z3.is_mul(e) and e.num_args() == 2 and z3.is_int_value(e.arg(0)) and e.arg(0).as_long() == -1:
            sign, e = -sign, e.arg(1)
            continue
        return sign, e


def products(fs):
    seen, prods = set(), {}

    def walk(e):
        if e.get_id() in seen:
            return
        seen.add(e.get_id())
        if z3.is_quantifier(e):
            return            # bound variables: no hints inside quantifiers
        if z3.is_mul(e) and e.sort() == z3.IntSort():
            ch = [x for x in e.children() if not z3.is_int_value(x)]
            if len(ch) == 2 and e.num_args() == 2:
                prods[e.get_id()] = (e, ch[0], ch[1])
        for x in e.children():
            walk(x)
    for f in fs:
        walk(f)
    return list(prods.values())


def hints(fs, limit=3000):
    ps = products(fs)
    # canonical views: (product term e, u, d) meaning e == u*d, for both factor orders, with d stripped of sign
    views = []
    for (e, x, y) in ps:
        for (u, d) in ((x, y), (y, x)):
            sg, core = _strip(d)
            views.append((e, u if sg == 1 else -u, core))
    out = []
    byd = {}
    for v in views:
        byd.setdefault(v[2].get_id(), []).append(v)
    for grp in byd.values():
        d = grp[0][2]
        if z3.is_int_value(d):
            continue
        base = [(e, u) for (e, u, _d) in grp]
        items = base + [(-e, -u) for (e, u) in base] + [(z3.IntVal(0), z3.IntVal(0))]
        nb = len(base)
        for i, (e1, u1) in enumerate(items):
            if i >= nb:
                break          # first component always an un-negated product: (p, q), (p, -q), (p, 0)
            for j2, (e2, u2) in enumerate(items[i + 1:], i + 1):
                if e1.eq(e2) or j2 == i + nb:
                    continue
                du, de = u1 - u2, e1 - e2
                out.append(z3.Implies(d > 0, z3.And((du < 0) == (de < 0), (du == 0) == (de == 0))))
                out.append(z3.Implies(d < 0, z3.And((du < 0) == (de > 0), (du == 0) == (de == 0))))
                for k in (-2, -1, 1, 2):
                    out.append(z3.Implies(du == k, de == k * d))
                out.append(z3.Implies(z3.And(d > 0, du >= 3), de >= 3 * d))
                out.append(z3.Implies(z3.And(d > 0, du <= -3), de <= -3 * d))
                out.append(z3.Implies(z3.And(d < 0, du >= 3), de <= 3 * d))
                out.append(z3.Implies(z3.And(d < 0, du <= -3), de >= -3 * d))
                if len(out) > limit:
                    return out
    return out
