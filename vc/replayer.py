"""Replay of counter-models against the real code.

The concrete case is produced by the contract (`replay_case`) from the solver model; the harness
(/verif/replay/*.py) runs under /venv/bin/python in a subprocess against a scratch copy of /repo's
current working tree (C extension rebuilt with gcc when ctraits.c differs from the in-place build),
evaluates the property's clauses concretely and reports which of them the real code violates.
"""
import json
import os
import shutil
import subprocess
import sys
import tempfile

ROOT = os.path.dirname(os.path.dirname(os.path.abspath(__file__)))
REPO = os.environ.get("VERIF_REPO", "/repo")
PY = "/venv/bin/python"


def scratch_tree():
    """Copy of the working tree's `traits` package with a matching ctraits build; -> directory (caller removes)."""
    base = os.environ.get("VERIF_SCRATCH") or tempfile.gettempdir()
    d = tempfile.mkdtemp(prefix="verif-replay-", dir=base)
    shutil.copytree("/repo/traits", os.path.join(d, "traits"),
                    ignore=shutil.ignore_patterns("__pycache__", "tests", "*.so"))
    # overlay: files of a (possibly partial) VERIF_REPO tree (selftest mutants) on top of /repo's package
    if REPO != "/repo" and os.path.isdir(os.path.join(REPO, "traits")):
        shutil.copytree(os.path.join(REPO, "traits"), os.path.join(d, "traits"), dirs_exist_ok=True,
                        ignore=shutil.ignore_patterns("__pycache__", "*.so"))
    so = [f for f in os.listdir("/repo/traits") if f.startswith("ctraits") and f.endswith(".so")]
    csrc = os.path.join(d, "traits", "ctraits.c")
    need_build = True
    if so:
        so_path = os.path.join("/repo/traits", so[0])
        overlay_c = REPO != "/repo" and os.path.exists(os.path.join(REPO, "traits", "ctraits.c"))
        if not overlay_c and os.path.getmtime(so_path) >= os.path.getmtime("/repo/traits/ctraits.c"):
            shutil.copy(so_path, os.path.join(d, "traits", so[0]))
            need_build = False
    if need_build:
        inc = subprocess.run([PY, "-c", "import sysconfig;print(sysconfig.get_paths()['include'])"],
                             capture_output=True, text=True).stdout.strip()
        suffix = subprocess.run([PY, "-c", "import sysconfig;print(sysconfig.get_config_var('EXT_SUFFIX'))"],
                                capture_output=True, text=True).stdout.strip()
        subprocess.run(["gcc", "-shared", "-fPIC", "-O1", "-DNDEBUG", "-fno-strict-overflow", "-I", inc, csrc, "-o",
                        os.path.join(d, "traits", "ctraits" + suffix)], check=True, capture_output=True)
    return d


def run_harness(harness, case, timeout=120):
    d = scratch_tree()
    try:
        env = dict(os.environ)
        env["PYTHONPATH"] = d
        env.pop("VERIF_REPO", None)
        p = subprocess.run([PY, os.path.join(ROOT, "replay", harness + ".py")], input=json.dumps(case), text=True,
                           capture_output=True, timeout=timeout, env=env, cwd=d)
        if p.returncode < 0:
            return dict(reproduced=True, detail="harness killed by signal %d" % -p.returncode, signal=-p.returncode)
        try:
            return json.loads(p.stdout.strip().splitlines()[-1])
        except Exception:
            return dict(reproduced=False, detail="harness output unreadable", stdout=p.stdout[-2000:], stderr=p.stderr[-2000:])
    except subprocess.TimeoutExpired:
        return dict(reproduced=False, detail="harness timeout")
    finally:
        shutil.rmtree(d, ignore_errors=True)


def replay(contract, ov, res, prop):
    case = (res.get("model") or {}).get("__case__")
    if case is None:
        return dict(reproduced=False, detail="no concretiser for this obligation", case=None)
    if isinstance(case, dict) and "__error__" in case:
        return dict(reproduced=False, detail="concretiser failed: %s" % case["__error__"], case=None)
    case = dict(case, obligation=res.get("name", ""))       # harnesses with several probes pick by the failed clause
    out = run_harness(case["harness"], case)
    out["case"] = case
    return out


def rerun(path):
    rec = json.load(open(path))
    case = (rec.get("replay") or {}).get("case")
    if not case:
        print("replay file carries no concrete case; obligation=%s" % rec.get("obligation"))
        print((rec.get("solver_output") or "")[:2000])
        return 1
    case = dict(case, obligation=res.get("name", ""))       # harnesses with several probes pick by the failed clause
    out = run_harness(case["harness"], case)
    print(json.dumps(out, indent=1))
    if out.get("reproduced"):
        print("VIOLATION property=%s replay=%s" % (rec.get("property"), path))
        return 1
    return 0
