"""Solver layer: one obligation = hypotheses |- goal, decided by z3 (API) first,
then /usr/bin/cvc5 and /usr/bin/z3 on the SMT-LIB2 dump when z3 says unknown.

Verdicts: 'discharged' (unsat), 'failed' (sat with a model that validates
against the negated goal), 'undecided' (unknown / timeout / model not
validated).  'undecided' is never turned into a violation.
"""
import os
import subprocess
import tempfile
import time

import z3

from . import nlhints


class Obligation:
    def __init__(self, name, hyps, goal, kind="post", props=(), witness=None, meta=None, expect_sat=False,
                 concretise=None):
        self.concretise = concretise      # callable(model) -> JSON-able replay case
        self.name, self.hyps, self.goal, self.kind = name, list(hyps), goal, kind
        self.props = tuple(props)
        self.witness = witness or {}      # label -> z3 term, evaluated in a counter-model
        self.meta = meta or {}
        self.expect_sat = expect_sat      # cover obligations: reachable means sat


class Result:
    def __init__(self, ob, status, backend, secs, model=None, reason=""):
        self.name, self.kind, self.props = ob.name, ob.kind, ob.props
        self.status, self.backend, self.secs, self.model, self.reason = status, backend, secs, model, reason
        self.meta = ob.meta
        self.smt2 = None

    def as_dict(self):
        d = dict(name=self.name, kind=self.kind, props=list(self.props), status=self.status, backend=self.backend,
                 secs=round(self.secs, 3), reason=self.reason, meta=self.meta)
        if self.model is not None:
            d["model"] = self.model
        if self.smt2 is not None:
            d["smt2"] = self.smt2
        return d


def _model_dict(m, witness):
    out = {}
    for label, term in witness.items():
        if not z3.is_expr(term):
            out[label] = str(term)
            continue
        try:
            out[label] = str(m.eval(term, model_completion=True))
        except Exception as e:      # pragma: no cover
            out[label] = "<%s>" % e
    return out


def _seq_consts(terms):
    """sequence-sorted constants of the terms (DAG-aware walk; z3util.get_vars revisits shared subterms)"""
    seen, out, stack = set(), {}, list(terms)
    while stack:
        e = stack.pop()
        i = e.get_id()
        if i in seen:
            continue
        seen.add(i)
        if z3.is_quantifier(e):
            stack.append(e.body())
            continue
        if z3.is_const(e) and e.decl().kind() == z3.Z3_OP_UNINTERPRETED and z3.is_seq(e):
            out[i] = e
        stack.extend(e.children())
    return list(out.values())


def _has_quant(e, seen=None):
    seen = seen if seen is not None else set()
    if e.get_id() in seen:
        return False
    seen.add(e.get_id())
    if z3.is_quantifier(e):
        return True
    return any(_has_quant(c, seen) for c in e.children())


def _validate(m, hyps, neg_goal):
    """Re-evaluate the ground hypotheses and the negated goal in the model."""
    for h in hyps + [neg_goal]:
        if _has_quant(h):
            continue
        try:
            v = m.eval(h, model_completion=True)
        except Exception:
            continue
        if z3.is_false(v):
            return False
    return True


def external(smt2, timeout_s):
    """Run the other installed solvers on an SMT-LIB2 dump concurrently; -> (status, backend)."""
    with tempfile.NamedTemporaryFile("w", suffix=".smt2", delete=False, dir=os.environ.get("VERIF_TMP")) as f:
        f.write(smt2)
        path = f.name
    procs = []
    try:
        for backend, cmd in (("cvc5", ["/usr/bin/cvc5", "--strings-exp", "--tlimit=%d" % int(timeout_s * 1000), path]),
                             ("z3-4.8", ["/usr/bin/z3", "-T:%d" % max(1, int(timeout_s)), path])):
            try:
                procs.append((backend, subprocess.Popen(cmd, stdout=subprocess.PIPE, stderr=subprocess.DEVNULL, text=True)))
            except OSError:
                pass
        deadline = time.time() + timeout_s + 3
        verdict = ("unknown", None)
        pending = list(procs)
        while pending and time.time() < deadline:
            for bp in list(pending):
                backend, p = bp
                if p.poll() is not None:
                    pending.remove(bp)
                    out = (p.stdout.read() or "").strip().splitlines()
                    if out and out[0].strip() == "unsat":
                        verdict = ("unsat", backend)
                        pending = []
                        break
                    if out and out[0].strip() == "sat" and verdict[0] == "unknown":
                        verdict = ("sat", backend)
            time.sleep(0.02)
        return verdict
    finally:
        for _b, p in procs:
            if p.poll() is None:
                p.kill()
            try:
                p.wait(timeout=2)
            except Exception:
                pass
        os.unlink(path)


QUICK_MS = 2500
_beta_cache = {}


def _beta(f):
    # set/dict comprehension terms are named definitions now (values.mk_lambda); nothing left to reduce, and z3's
    # simplifier reshapes sequence terms in ways the external solvers handle worse
    return f
    k = f.get_id()
    if k not in _beta_cache:
        txt = None
        try:
            r = z3.simplify(f, som=False, flat=False, elim_and=False, blast_distinct=False, arith_lhs=False,
                            sort_sums=False, hoist_mul=False, mul_to_power=False, algebraic_number_evaluator=False)
        except Exception:
            r = f
        _beta_cache[k] = (f, r)      # keep f alive so that its id is not reused
    return _beta_cache[k][1]


def _z3_check(hyps, neg, nl, timeout_ms):
    s = z3.Solver()
    s.set("timeout", int(timeout_ms))
    s.add(*hyps)
    s.add(neg)
    if nl:
        s.add(*nl)
    return s, s.check()


def prove(ob, axioms=(), timeout_ms=60000, use_external=True):
    """Portfolio: z3 API briefly, then cvc5 and z3 4.8 on the dump, then z3 API with the full budget."""
    t0 = time.time()
    if not ob.expect_sat and z3.is_true(ob.goal):
        # the clause was decided while the path was executed (a Python-level fact about the trace / heap shape)
        return Result(ob, "discharged", "by-evaluation", 0.0)
    # beta-reduce applications of lambda terms (set/dict algebra) before anything else: z3's array theory gives
    # up at once ("incomplete (theory array)") on nested lambdas that the rewriter removes trivially
    ob.hyps = [_beta(h) for h in ob.hyps]
    ob.goal = _beta(ob.goal)
    hyps = [_beta(a) for a in axioms] + ob.hyps
    if ob.expect_sat and ob.meta.get("alternatives"):
        alts = ob.meta.pop("alternatives")
        first = prove(ob, axioms, timeout_ms, use_external)
        if first.status == "discharged":
            return first
        for (pc, goal) in alts:
            r = prove(Obligation(ob.name, pc, goal, kind=ob.kind, props=ob.props, expect_sat=True), axioms, timeout_ms, use_external)
            if r.status == "discharged":
                r.meta = ob.meta
                return r
        return first
    if ob.expect_sat:
        # cover: some state satisfying the path condition and the predicate exists.  A strengthening that is
        # sat proves reachability, so when the plain query is unknown (quantified hypotheses) it is retried
        # with every sequence constant fixed to a small length, which makes the range quantifiers finite.
        from z3 import z3util
        seqs = _seq_consts(hyps + [ob.goal]) if hyps else []
        last = None
        n_quant = sum(1 for h in hyps if _has_quant(h))
        if n_quant >= 4 and not seqs:
            # many quantified hypotheses (loop invariants, type invariants over arrays): the sat check of the full
            # query does not come back; a contradiction among preconditions and branch conditions shows in the ground part,
            # and the quantified invariants are shown consistent by their own inv-init obligations
            s = z3.Solver()
            s.set("timeout", int(min(10000, timeout_ms)))
            s.add(*[h for h in hyps if not _has_quant(h)])
            s.add(ob.goal)
            last = s.check()
            if last == z3.sat:
                return Result(ob, "discharged", "z3-api", time.time() - t0,
                              reason="cover sat on the ground part (%d quantified hypotheses omitted)" % n_quant)
            if last == z3.unsat:
                return Result(ob, "failed", "z3-api", time.time() - t0, reason="cover unsat: unreachable")
        for extra_n, budget in ((None, 3000), (0, 3000), (1, 5000)):
            s = z3.Solver()
            s.set("timeout", int(min(budget, timeout_ms)))
            s.add(*hyps)
            s.add(ob.goal)
            if extra_n is not None:
                if not seqs:
                    break
                s.add(*[z3.Length(v) == extra_n for v in seqs])
            last = s.check()
            if last == z3.sat:
                return Result(ob, "discharged", "z3-api", time.time() - t0, reason="cover sat")
            if last == z3.unsat and extra_n is None:
                return Result(ob, "failed", "z3-api", time.time() - t0, reason="cover unsat: unreachable")
        # last resort: the ground part only (quantified hypotheses here are definitional axioms of the builtin
        # model -- satisfiable by construction -- so a contradiction among the contract's own preconditions
        # and path conditions, which is what a cover guards against, shows in the ground part)
        s = z3.Solver()
        s.set("timeout", int(min(10000, timeout_ms)))
        s.add(*[h for h in hyps if not _has_quant(h)])
        s.add(ob.goal)
        last = s.check()
        if last == z3.sat:
            return Result(ob, "discharged", "z3-api", time.time() - t0,
                          reason="cover sat on the ground part (quantified definitional axioms omitted)")
        if last == z3.unsat:
            return Result(ob, "failed", "z3-api", time.time() - t0, reason="cover unsat: unreachable")
        return Result(ob, "undecided", "z3-api", time.time() - t0, reason="cover %s" % last)
    neg = z3.Not(ob.goal)
    nl = nlhints.hints(hyps + [neg])
    if nl:
        ob.meta["nl_hints"] = len(nl)   # theorem instances of integer arithmetic over terms of the query
    reason = ""
    stages = [("z3-api", min(QUICK_MS, timeout_ms))]
    if use_external:
        stages.append(("external", min(30000, timeout_ms)))
    stages.append(("z3-api", timeout_ms))
    ext_sat = False
    ext_backend = None
    for (which, budget) in stages:
        if which == "external":
            s = z3.Solver()
            s.add(*hyps)
            s.add(neg)
            if nl:
                s.add(*nl)
            st, backend = external(s.to_smt2(), budget / 1000.0)
            if st == "unsat":
                return Result(ob, "discharged", backend, time.time() - t0)
            ext_sat = st == "sat"
            ext_backend = backend
            continue
        s, r = _z3_check(hyps, neg, nl, budget)
        if r == z3.unsat:
            return Result(ob, "discharged", "z3-api", time.time() - t0)
        if r == z3.sat:
            m = s.model()
            if _validate(m, ob.hyps, neg):
                md = _model_dict(m, ob.witness)
                if ob.concretise is not None:
                    try:
                        md["__case__"] = ob.concretise(m)
                    except Exception as e:
                        md["__case__"] = {"__error__": repr(e)}
                res = Result(ob, "failed", "z3-api", time.time() - t0, model=md)
                txt = s.to_smt2()
                res.smt2 = txt if len(txt) < 60000 else None
                return res
            reason = "sat model did not validate"
            break
        reason = "z3 unknown: %s" % s.reason_unknown()
    if ext_sat:
        reason += "; an external solver answered sat (no model extracted)"
    # model search in a small finite universe: adding "every element of an uninterpreted sort is one of k
    # constants" (and short sequences) only strengthens the query, so a model found this way is a model of the
    # original query; it makes the quantifiers finite, which is what z3's model finder needs.
    res = _finite_model(ob, hyps, neg, nl, min(15000, timeout_ms), t0)
    if res is not None:
        return res
    # candidate counterexample: the quantified hypotheses are dropped to obtain *some* model; such a model
    # proves nothing by itself and is only ever reported after it has been replayed on the real code.
    if ob.concretise is not None:
        s = z3.Solver()
        s.set("timeout", int(min(10000, timeout_ms)))
        s.add(*[h for h in hyps if not _has_quant(h)])
        s.add(neg)
        if s.check() == z3.sat:
            m = s.model()
            md = _model_dict(m, ob.witness)
            try:
                md["__case__"] = ob.concretise(m)
            except Exception as e:
                md["__case__"] = {"__error__": repr(e)}
            # `sat` from cvc5 / z3 4.8 on the *full* query decides the obligation (it does not hold); the model
            # shown is only a candidate.  Without such an answer the obligation stays undecided unless the
            # candidate reproduces on the real code (main.py).
            return Result(ob, "failed" if ext_sat else "candidate", ext_backend or "z3-api", time.time() - t0, model=md,
                          reason=reason + "; model taken from the ground part of the query (unvalidated candidate)")
    if ext_sat:
        return Result(ob, "failed", ext_backend, time.time() - t0, model={}, reason=reason)
    return Result(ob, "undecided", "z3-api", time.time() - t0, reason=reason)


def _finite_model(ob, hyps, neg, nl, budget_ms, t0):
    from z3 import z3util
    fs = hyps + [neg]
    try:
        vars_ = z3util.get_vars(z3.And(*fs))
    except Exception:
        return None
    usorts = {}
    for v in vars_:
        srt = v.sort()
        if srt.kind() == z3.Z3_UNINTERPRETED_SORT:
            usorts[srt.name()] = srt
    # sorts that only occur below containers
    for f in fs:
        for m in ("Val",):
            pass
    seqs = [v for v in vars_ if z3.is_seq(v)]
    from .pyvc.values import Val
    usorts.setdefault("Val", Val)
    for k in (2, 3, 4):
        s = z3.Solver()
        s.set("timeout", int(budget_ms / 3))
        s.add(*fs)
        if nl:
            s.add(*nl)
        for name, srt in usorts.items():
            cs = [z3.Const("u!%s!%d" % (name, i), srt) for i in range(k)]
            x = z3.Const("x!fin", srt)
            s.add(z3.ForAll([x], z3.Or(*[x == c for c in cs])))
        s.add(*[z3.Length(v) <= k for v in seqs])
        if s.check() == z3.sat:
            m = s.model()
            if not _validate(m, ob.hyps, neg):
                continue
            md = _model_dict(m, ob.witness)
            if ob.concretise is not None:
                try:
                    md["__case__"] = ob.concretise(m)
                except Exception as e:
                    md["__case__"] = {"__error__": repr(e)}
            return Result(ob, "failed", "z3-api", time.time() - t0, model=md,
                          reason="model found in a finite universe of %d elements per uninterpreted sort" % k)
    return None


# ---------------------------------------------------------------------------------------------
# parallel discharge (fork: the z3 terms are inherited, only plain results travel back)
# ---------------------------------------------------------------------------------------------

def prove_groups(groups, axioms, timeout_ms, workers):
    """groups: list of lists of obligations; the obligations of one group are proved in order and the
    discharged goals of a group are added as hypotheses of its later members (lemma chaining).
    -> list of Result in the order of the flattened input.

    Workers are forked processes that stream one pickled record per obligation into a file.  The parent watches the
    files: a worker that spends more than 3 x budget + 60 s on one obligation (a solver call that ignores its
    timeout) is killed, that obligation is reported undecided, and a new worker takes over the rest."""
    import pickle
    import shutil
    import signal
    import tempfile

    def run_group_stream(gi, g, f, start_at=0, proved=None):
        proved = list(proved or [])
        for j, ob in enumerate(g):
            if j < start_at:
                continue
            pickle.dump(("start", gi, j, time.time()), f)
            f.flush()
            if proved:
                ob.hyps = ob.hyps + proved
            r = prove(ob, axioms, timeout_ms)
            if r.status == "discharged" and ob.meta.get("chain") is not None and not ob.expect_sat:
                proved.append(ob.goal)
            pickle.dump(("done", gi, j, (r.status, r.backend, r.secs, r.model, r.reason, r.smt2, ob.meta)), f)
            f.flush()

    n = len(groups)
    total = sum(len(g) for g in groups)
    workers = max(1, min(workers, n))
    results = {}          # (gi, j) -> tuple
    if workers == 1 and total <= 3:
        out = []
        for g in groups:
            proved = []
            for ob in g:
                if proved:
                    ob.hyps = ob.hyps + proved
                r = prove(ob, axioms, timeout_ms)
                out.append(r)
                if r.status == "discharged" and ob.meta.get("chain") is not None and not ob.expect_sat:
                    proved.append(ob.goal)
        return out
    order = sorted(range(n), key=lambda i: -len(groups[i]))
    queue = [order[w::workers] for w in range(workers)]          # per-worker list of group indices
    tmpd = tempfile.mkdtemp(prefix="verif-prove-", dir=os.environ.get("VERIF_SCRATCH"))
    limit = 3 * timeout_ms / 1000.0 + 60
    live = {}             # pid -> dict(path, part, offset)
    serial = [0]

    def spawn(part, skip):
        """part: list of group indices; skip: set of (gi, j) already decided"""
        serial[0] += 1
        path = os.path.join(tmpd, "%d.pkl" % serial[0])
        open(path, "wb").close()
        pid = os.fork()
        if pid == 0:
            try:
                with open(path, "ab") as f:
                    for gi in part:
                        g = groups[gi]
                        start = 0
                        while start < len(g) and (gi, start) in skip:
                            start += 1
                        # chaining hypotheses of already-decided members are not re-derived after a restart
                        run_group_stream(gi, g, f, start_at=start)
                    pickle.dump(("end",), f)
            except BaseException as e:      # pragma: no cover
                try:
                    with open(path, "ab") as f:
                        pickle.dump(("error", repr(e)), f)
                except Exception:
                    pass
            os._exit(0)
        live[pid] = dict(path=path, part=part, pos=0, current=None, ended=False)

    def drain(info):
        with open(info["path"], "rb") as f:
            f.seek(info["pos"])
            while True:
                try:
                    rec = pickle.load(f)
                except Exception:
                    break
                info["pos"] = f.tell()
                if rec[0] == "start":
                    info["current"] = (rec[1], rec[2], rec[3])
                elif rec[0] == "done":
                    results[(rec[1], rec[2])] = rec[3]
                    info["current"] = None
                elif rec[0] == "end":
                    info["ended"] = True
                elif rec[0] == "error":
                    info["error"] = rec[1]
                    info["ended"] = True
    try:
        for part in queue:
            if part:
                spawn(part, set())
        while live:
            time.sleep(0.05)
            for pid in list(live):
                info = live[pid]
                drain(info)
                done_pid, _ = os.waitpid(pid, os.WNOHANG)
                if done_pid == pid:
                    drain(info)
                    del live[pid]
                    if not info["ended"] or info.get("error"):
                        # worker died: everything it had not reported is undecided
                        for gi in info["part"]:
                            for j, ob in enumerate(groups[gi]):
                                results.setdefault((gi, j), ("undecided", "z3-api", 0.0, None,
                                                             "prover worker died: %s" % info.get("error", "killed"), None, ob.meta))
                    continue
                cur = info["current"]
                if cur is not None and time.time() - cur[2] > limit:
                    try:
                        os.kill(pid, signal.SIGKILL)
                    except OSError:
                        pass
                    os.waitpid(pid, 0)
                    drain(info)
                    del live[pid]
                    gi, j, _t = cur
                    results[(gi, j)] = ("undecided", "z3-api", limit, None,
                                        "solver call exceeded %.0f s and was killed" % limit, None, groups[gi][j].meta)
                    spawn(info["part"], set(results))
    finally:
        for pid in list(live):
            try:
                os.kill(pid, signal.SIGKILL)
                os.waitpid(pid, 0)
            except OSError:
                pass
        shutil.rmtree(tmpd, ignore_errors=True)
    out = []
    for gi, g in enumerate(groups):
        for j, ob in enumerate(g):
            tup = results.get((gi, j)) or ("undecided", "z3-api", 0.0, None, "no result reported", None, ob.meta)
            status, backend, secs, model, reason, smt2, meta = tup
            ob.meta = meta
            r = Result(ob, status, backend, secs, model=model, reason=reason)
            r.smt2 = smt2
            out.append(r)
    return out
