"""Solver layer: one obligation = hypotheses |- goal, decided by z3 (API) first,
then /usr/bin/cvc5 and /usr/bin/z3 on the SMT-LIB2 dump when z3 says unknown.

Verdicts: 'discharged' (unsat), 'failed' (sat with a model that validates
against the negated goal), 'undecided' (unknown / timeout / model not
validated).  'undecided' is never turned into a violation.
"""
import os
import subprocess
import tempfile
import time

import z3


class Obligation:
    def __init__(self, name, hyps, goal, kind="post", props=(), witness=None, meta=None, expect_sat=False):
        self.name, self.hyps, self.goal, self.kind = name, list(hyps), goal, kind
        self.props = tuple(props)
        self.witness = witness or {}      # label -> z3 term, evaluated in a counter-model
        self.meta = meta or {}
        self.expect_sat = expect_sat      # cover obligations: reachable means sat


class Result:
    def __init__(self, ob, status, backend, secs, model=None, reason=""):
        self.name, self.kind, self.props = ob.name, ob.kind, ob.props
        self.status, self.backend, self.secs, self.model, self.reason = status, backend, secs, model, reason
        self.meta = ob.meta
        self.smt2 = None

    def as_dict(self):
        d = dict(name=self.name, kind=self.kind, props=list(self.props), status=self.status, backend=self.backend,
                 secs=round(self.secs, 3), reason=self.reason, meta=self.meta)
        if self.model is not None:
            d["model"] = self.model
        if self.smt2 is not None:
            d["smt2"] = self.smt2
        return d


def _model_dict(m, witness):
    out = {}
    for label, term in witness.items():
        try:
            out[label] = str(m.eval(term, model_completion=True))
        except Exception as e:      # pragma: no cover
            out[label] = "<%s>" % e
    return out


def _has_quant(e, seen=None):
    seen = seen if seen is not None else set()
    if e.get_id() in seen:
        return False
    seen.add(e.get_id())
    if z3.is_quantifier(e):
        return True
    return any(_has_quant(c, seen) for c in e.children())


def _validate(m, hyps, neg_goal):
    """Re-evaluate the ground hypotheses and the negated goal in the model."""
    for h in hyps + [neg_goal]:
        if _has_quant(h):
            continue
        try:
            v = m.eval(h, model_completion=True)
        except Exception:
            continue
        if z3.is_false(v):
            return False
    return True


def external(smt2, timeout_s, want_models=False):
    """Try the other installed solvers on an SMT-LIB2 dump; -> (status, backend)."""
    with tempfile.NamedTemporaryFile("w", suffix=".smt2", delete=False, dir=os.environ.get("VERIF_TMP")) as f:
        f.write(smt2)
        path = f.name
    try:
        for backend, cmd in (("cvc5", ["/usr/bin/cvc5", "--strings-exp", "--tlimit=%d" % int(timeout_s * 1000), path]),
                             ("z3-4.8", ["/usr/bin/z3", "-T:%d" % max(1, int(timeout_s)), path])):
            try:
                out = subprocess.run(cmd, capture_output=True, text=True, timeout=timeout_s + 5).stdout.strip().splitlines()
            except Exception:
                continue
            if out and out[0].strip() == "unsat":
                return "unsat", backend
        return "unknown", None
    finally:
        os.unlink(path)


def prove(ob, axioms=(), timeout_ms=60000, use_external=True):
    t0 = time.time()
    s = z3.Solver()
    s.set("timeout", int(timeout_ms))
    hyps = list(axioms) + ob.hyps
    s.add(*hyps)
    if ob.expect_sat:
        s.add(ob.goal)
        r = s.check()
        # a cover is reachable only on sat; unknown is reported as undecided
        st = "discharged" if r == z3.sat else ("failed" if r == z3.unsat else "undecided")
        return Result(ob, st, "z3-api", time.time() - t0, reason="cover %s" % r)
    neg = z3.Not(ob.goal)
    s.add(neg)
    r = s.check()
    if r == z3.unsat:
        return Result(ob, "discharged", "z3-api", time.time() - t0)
    if r == z3.sat:
        m = s.model()
        if _validate(m, ob.hyps, neg):
            res = Result(ob, "failed", "z3-api", time.time() - t0, model=_model_dict(m, ob.witness))
            res.smt2 = s.to_smt2() if len(s.to_smt2()) < 60000 else None
            return res
        reason = "sat model did not validate"
    else:
        reason = "z3 unknown: %s" % s.reason_unknown()
    if use_external:
        st, backend = external(s.to_smt2(), min(60, timeout_ms / 1000.0))
        if st == "unsat":
            return Result(ob, "discharged", backend, time.time() - t0)
    return Result(ob, "undecided", "z3-api", time.time() - t0, reason=reason)
