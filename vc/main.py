"""./check <property> [--tier quick|thorough] [--replay file] [--list]

Decides one property: generates every obligation of every contract that carries the property from
/repo's current working tree, discharges them, replays counter-models against the real code, matches
failures against KNOWN_FINDINGS.jsonl, writes evidence/<id>.json, and exits
  0 held / 1 VIOLATION / 2 UNDECIDED / 3 internal error.
"""
import argparse
import glob
import hashlib
import importlib
import json
import os
import pickle
import re
import sys
import time
import traceback

ROOT = os.path.dirname(os.path.dirname(os.path.abspath(__file__)))
sys.path.insert(0, ROOT)

from vc import unit as U            # noqa: E402
from vc import replayer             # noqa: E402

CONTRACT_MODULES = ["contracts.py.trait_list"]
for _f in sorted(glob.glob(os.path.join(ROOT, "contracts", "py", "*.py")) + glob.glob(os.path.join(ROOT, "contracts", "c", "*.py"))):
    _m = os.path.relpath(_f, ROOT)[:-3].replace(os.sep, ".")
    if not _m.endswith("__init__") and _m not in CONTRACT_MODULES:
        CONTRACT_MODULES.append(_m)

TRUSTED_BASE = [
    "z3 5.1 (python API), /usr/bin/cvc5 1.0.3, /usr/bin/z3 4.8.12 as decision procedures",
    "pyvc: the AST->VC generator in /verif/vc/pyvc (semantics of the Python subset, DESIGN 3 A-PY)",
    "A-BUILTIN axioms of list/dict/set/slice in /verif/vc/pyvc/builtins_model.py (conformance-tested against CPython 3.12)",
    "vc/nlhints.py: instances of product-monotonicity theorems of integer arithmetic",
]


def load_contracts():
    for m in CONTRACT_MODULES:
        importlib.import_module(m)
    return U.BY_ID


def units_for(prop, tier):
    out = []
    for cid, c in U.BY_ID.items():
        if prop in c.properties or prop in getattr(c, "extra_properties", ()):
            if tier == "quick" and getattr(c, "thorough_only", False):
                continue
            for ov in c.overloads:
                out.append((c, ov))
    return out


def run_units(units, timeout_ms, total_workers=16, only_prop=None):
    """Fork one child per unit (bounded), each child forking its own provers."""
    results = [None] * len(units)
    if not units:
        return results
    conc = min(len(units), max(1, total_workers // 2))
    per = max(1, total_workers // conc)
    pending = list(range(len(units)))
    # heavy units first (declared weight)
    pending.sort(key=lambda i: -getattr(units[i][0], "weight", {}).get(units[i][1], 1) if isinstance(getattr(units[i][0], "weight", None), dict) else 0)
    running = {}
    import tempfile
    import shutil
    tmpd = tempfile.mkdtemp(prefix="verif-units-", dir=os.environ.get("VERIF_SCRATCH"))
    try:
        while pending or running:
            while pending and len(running) < conc:
                i = pending.pop(0)
                out_path = os.path.join(tmpd, "%d.pkl" % i)
                pid = os.fork()
                if pid == 0:
                    try:
                        c, ov = units[i]
                        ur = U.verify_unit(c, ov, timeout_ms=timeout_ms, workers=per, only_prop=only_prop)
                        data = pickle.dumps(ur.as_dict())
                    except BaseException as e:      # pragma: no cover
                        data = pickle.dumps({"__error__": "%r\n%s" % (e, traceback.format_exc())})
                    with open(out_path, "wb") as f:
                        f.write(data)
                    os._exit(0)
                running[pid] = (i, out_path)
            pid, _status = os.wait()
            if pid in running:
                i, out_path = running.pop(pid)
                try:
                    with open(out_path, "rb") as f:
                        results[i] = pickle.loads(f.read())
                except Exception:
                    results[i] = {"__error__": "unit worker died"}
    finally:
        shutil.rmtree(tmpd, ignore_errors=True)
    return results


def load_known():
    path = os.path.join(ROOT, "KNOWN_FINDINGS.jsonl")
    out = []
    if os.path.exists(path):
        for line in open(path):
            line = line.strip()
            if line and not line.startswith("#"):
                out.append(json.loads(line))
    return out


def match_known(known, prop, res):
    """A failed obligation is a known finding when an entry with status 'known' for this property names
    its function and clause (regex on the obligation name) and, if the entry has a `model` filter,
    every listed witness label matches the regex given for it."""
    for k in known:
        if k.get("status") != "known" or k.get("property") != prop:
            continue
        if not re.search(k["obligation"], res["name"]):
            continue
        ok = True
        for label, rx in (k.get("model") or {}).items():
            if not re.search(rx, str((res.get("model") or {}).get(label, ""))):
                ok = False
        if ok:
            return k
    return None


def main(argv=None):
    ap = argparse.ArgumentParser()
    ap.add_argument("prop")
    ap.add_argument("--tier", default=os.environ.get("VERIF_TIER", "quick"))
    ap.add_argument("--replay")
    ap.add_argument("--list", action="store_true")
    ap.add_argument("--only", help="substring filter on contract ids (debugging; evidence is not written)")
    ap.add_argument("-v", action="store_true")
    a = ap.parse_args(argv)
    seed = int(os.environ.get("VERIF_SEED", "0"))
    t0 = time.time()
    load_contracts()
    if a.replay:
        return replayer.rerun(a.replay)
    prop = a.prop
    tier = a.tier if a.tier in ("quick", "thorough") else "quick"
    units = units_for(prop, tier)
    if a.only:
        units = [(c, ov) for (c, ov) in units if a.only in c.cid]
    if a.list:
        for c, ov in units:
            print(c.cid, ov)
        return 0
    extra = []
    for c in {c for c, _ in units}:
        pass
    timeout_ms = 60000 if tier == "quick" else 300000
    raw = run_units(units, timeout_ms, only_prop=prop)
    known = load_known()
    failed, undecided, internal = [], [], []
    probe_cache = {}
    n_ob = n_dis = 0
    by_backend, by_kind = {}, {}
    solver_s = 0.0
    slow = []
    samples = []
    functions = []
    assumptions, hints = set(), set()
    known_hits = []
    for (c, ov), ur in zip(units, raw):
        if "__error__" in ur:
            internal.append("%s[%s]: %s" % (c.cid, ov, ur["__error__"]))
            continue
        functions.append(dict(function=ur["cid"], overload=ur["overload"], source_sha256=ur["source_sha256"],
                              lines=ur["lines"], paths=ur["paths"], secs=ur["secs"]))
        assumptions.update(ur["assumptions"])
        hints.update(ur["hints"])
        if ur["undecided_reason"]:
            probe = getattr(c, "undecided_probe", None)
            decided = False
            if probe and not ur["undecided_reason"].startswith("internal"):
                # the function left the supported subset (no obligation could be generated): the contract's independent
                # concrete oracle is asked instead; only a failing input found on the real code counts
                key = (c.cid, json.dumps(probe, sort_keys=True))
                if key not in probe_cache:
                    probe_cache[key] = replayer.run_harness(probe["harness"], dict(probe, obligation=c.cid, seed=seed), timeout=300)
                if probe_cache[key].get("reproduced"):
                    failed.append((c, ov, dict(name="%s[%s]/whole-contract (function outside the verifier's subset: %s)" % (c.cid, ov, ur["undecided_reason"][:80]),
                                               status="failed", kind="post", backend="concrete-oracle", secs=0.0, props=[prop], meta={}, model=None,
                                               reason="decided by the concrete oracle of the contract", replay_done=dict(probe_cache[key], case=probe))))
                    decided = True
            if not decided:
                (internal if ur["undecided_reason"].startswith("internal") else undecided).append(
                    "%s[%s]: %s" % (c.cid, ov, ur["undecided_reason"]))
        for r in ur["results"]:
            if prop not in r["props"]:
                continue
            n_ob += 1
            solver_s += r["secs"]
            by_kind[r["kind"]] = by_kind.get(r["kind"], 0) + 1
            if r["status"] == "discharged":
                n_dis += 1
                by_backend[r["backend"]] = by_backend.get(r["backend"], 0) + 1
                slow.append((r["secs"], r["name"]))
                if len(samples) < 4 and r["kind"] not in ("cover",) and r.get("meta", {}).get("part", 0) == 0:
                    samples.append(dict(obligation=r["name"], path=r["meta"].get("path"), status="discharged",
                                        backend=r["backend"], secs=r["secs"]))
            elif r["status"] == "failed":
                failed.append((c, ov, r))
            elif r["status"] == "candidate":
                # not decided by the solver: counts as a violation only if the candidate input reproduces
                rep = replayer.replay(c, ov, r, prop)
                if rep.get("reproduced"):
                    r["replay_done"] = rep
                    failed.append((c, ov, r))
                else:
                    # the unvalidated candidate was no failing input: the obligation is still only undecided, so the
                    # contract's concrete oracle (if it names one) is asked exactly as for any other undecided obligation
                    probe = getattr(c, "undecided_probe", None)
                    if probe:
                        key = (c.cid, json.dumps(probe, sort_keys=True))
                        if key not in probe_cache:
                            probe_cache[key] = replayer.run_harness(probe["harness"], dict(probe, obligation=r["name"], seed=seed), timeout=300)
                        rep2 = dict(probe_cache[key], case=probe)
                        if rep2.get("reproduced"):
                            r["replay_done"] = rep2
                            r["reason"] += " (decided by the concrete oracle of the clause)"
                            failed.append((c, ov, r))
                            continue
                    undecided.append("%s: %s (candidate did not reproduce)" % (r["name"], r["reason"]))
            else:
                # the solver could not decide.  If the contract names an independent concrete oracle for its clauses, that
                # oracle is run on the real code: a failing input it finds is a violation (replayed, by construction);
                # finding none leaves the obligation undecided.  (An undecided obligation never becomes a violation by itself.)
                probe = getattr(c, "undecided_probe", None)
                if probe and r["kind"] != "cover":
                    key = (c.cid, json.dumps(probe, sort_keys=True))
                    if key not in probe_cache:
                        probe_cache[key] = replayer.run_harness(probe["harness"], dict(probe, obligation=r["name"], seed=seed), timeout=300)
                    rep = dict(probe_cache[key], case=probe)
                    if rep.get("reproduced"):
                        r["replay_done"] = rep
                        r["reason"] += " (decided by the concrete oracle of the clause)"
                        failed.append((c, ov, r))
                        continue
                undecided.append("%s: %s" % (r["name"], r["reason"]))
    # guards against a wrong verifier (DESIGN 5.2): the axioms of the two models against the running CPython
    guards = []
    if not a.only:
        import subprocess
        for label, cmd in (("api-conformance", ["/venv/bin/python", os.path.join(ROOT, "guards", "api_conformance.py")]),
                           ("builtins-conformance", [sys.executable, os.path.join(ROOT, "guards", "builtins_conformance.py")] +
                            (["--thorough"] if tier == "thorough" else []))):
            try:
                p = subprocess.run(cmd, capture_output=True, text=True, timeout=900)
                res = json.loads(p.stdout.strip().splitlines()[-1]) if p.stdout.strip() else dict(mismatches=["no output: " + p.stderr[-300:]])
            except Exception as e:        # the guard itself failing is a checker error as well
                res = dict(mismatches=["guard did not run: %r" % (e,)])
            guards.append(dict(guard=label, probes=res.get("probes"), mismatches=res.get("mismatches")))
            for mm in res.get("mismatches") or []:
                internal.append("model does not conform to CPython (%s): %s" % (label, mm))
    # extra (non-deductive, labelled) checks attached to the property
    bounded = []
    for c in {c for c, _ in units}:
        fn = getattr(c, "bounded_check", None)
        if fn is not None:
            bounded.append(fn(tier, seed))
    # ---- failures: known findings vs violations, with replay
    violations = []
    seen_groups = set()
    n_known_obs = 0
    rdir = os.path.join(ROOT, "replays", prop)
    os.makedirs(rdir, exist_ok=True)
    if not a.only:
        for old in glob.glob(os.path.join(rdir, "*.json")):      # replay files of earlier runs are stale
            os.unlink(old)
    for (c, ov, r) in failed:
        group = re.sub(r"#\d+$", "", r["name"])
        k = match_known(known, prop, r)
        if k is not None:
            n_known_obs += 1
            if (group, k["what"]) not in seen_groups:
                seen_groups.add((group, k["what"]))
                known_hits.append(k)
                print("KNOWN-FINDING: property=%s %s" % (prop, k["what"]))
            continue
        if group in seen_groups:
            continue
        seen_groups.add(group)
        rep = r.get("replay_done") or replayer.replay(c, ov, r, prop)
        if not rep.get("reproduced"):
            # the verifier's model gave no failing input on the real code (abstraction, or no concretiser): the concrete oracle
            # of the contract, if it names one, is asked for one -- this only adds a replayed input, the verdict is the solver's
            probe = getattr(c, "undecided_probe", None)
            if probe:
                key = (c.cid, json.dumps(probe, sort_keys=True))
                if key not in probe_cache:
                    probe_cache[key] = replayer.run_harness(probe["harness"], dict(probe, obligation=r["name"], seed=seed), timeout=300)
                if probe_cache[key].get("reproduced"):
                    rep = dict(probe_cache[key], case=probe, note="failing input found by the contract's concrete oracle; the verifier's own model: %r" % (rep.get("detail") or rep.get("case"),))
        path = os.path.join(ROOT, "replays", prop, hashlib.sha1(r["name"].encode()).hexdigest()[:12] + ".json")
        with open(path, "w") as f:
            json.dump(dict(property=prop, obligation=r["name"], overload=ov, model=r.get("model"),
                           solver=r["backend"], replay=rep, solver_output=r.get("smt2", "")[:20000] if not rep.get("reproduced") else None),
                      f, indent=1, default=str)
        tail = "" if rep.get("reproduced") else " no-failing-input-found"
        print("VIOLATION property=%s replay=%s obligation=%s%s" % (prop, path, r["name"], tail))
        violations.append(r["name"])
    for u in undecided:
        print("UNDECIDED property=%s %s" % (prop, u[:400]))
    for u in internal:
        print("INTERNAL property=%s %s" % (prop, u[:2000]))
    wall = time.time() - t0
    slow.sort(reverse=True)
    ev = dict(
        property_id=prop, tier=tier, seed=seed, level="proof",
        coverage=dict(
            # the proof-level claim is about the obligations outside the listed known findings; those are counted apart
            obligations=n_ob - n_known_obs, discharged=n_dis, obligations_failing_as_known_findings=n_known_obs,
            checker_cmd="cd /verif && ./check %s --tier %s" % (prop, tier),
            trusted_base=TRUSTED_BASE,
            samples=samples or [dict(note="no discharged obligation to sample")],
            functions_under_contract=functions,
            obligations_by_kind=by_kind, discharged_by_backend=by_backend,
            solver_seconds_total=round(solver_s, 2),
            slowest=[dict(secs=s, obligation=n) for s, n in slow[:5]],
            failed=[r["name"] for (_c, _o, r) in failed],
            known_findings=[k["what"] for k in known_hits],
            undecided=undecided[:50],
            hints=sorted(hints),
            bounded_checks=bounded,
            model_conformance_guards=guards,
            explanation="obligations = (path x clause) verification conditions generated from the real source of the listed "
                        "functions; discharged = proved unsat by the named back end; bounded_checks are stand-ins and are NOT "
                        "counted in obligations/discharged",
        ),
        assumptions=sorted(assumptions) + ["see DESIGN.md section 3 for the meaning of each assumption tag"],
        wall_s=round(wall, 2), violations=len(violations))
    if not a.only:
        os.makedirs(os.path.join(ROOT, "evidence"), exist_ok=True)
        with open(os.path.join(ROOT, "evidence", prop + ".json"), "w") as f:
            json.dump(ev, f, indent=1, default=str)
    print("property=%s tier=%s units=%d obligations=%d discharged=%d failed=%d known=%d undecided=%d wall=%.1fs" % (
        prop, tier, len(units), n_ob, n_dis, len(failed), len(known_hits), len(undecided), wall))
    for b in bounded:
        for kn in b.get("known", []):
            hit = [k for k in known if k.get("status") == "known" and k.get("property") == prop and k.get("obligation") == kn["id"]]
            if hit:
                print("KNOWN-FINDING: property=%s %s" % (prop, hit[0]["what"]))
                known_hits.append(hit[0])
            else:
                path = os.path.join(ROOT, "replays", prop, "bounded_%s.json" % re.sub(r"\W+", "_", kn["id"]))
                json.dump(dict(property=prop, obligation=kn["id"], replay=dict(reproduced=True, violated=kn.get("examples"))), open(path, "w"), indent=1)
                print("VIOLATION property=%s replay=%s (bounded stand-in) %s" % (prop, path, kn["id"]))
                violations.append(kn["id"])
        if b.get("violations"):
            for v in b["violations"]:
                print("VIOLATION property=%s replay=%s (bounded stand-in)" % (prop, v))
            violations += b["violations"]
    if internal:
        return 3
    if violations:
        return 1
    if undecided or n_ob == 0:
        return 2
    return 0


if __name__ == "__main__":
    sys.exit(main())
