"""Loop rule: a `for` over a symbolic sequence is cut at an inductive invariant supplied by the contract.

  inv-init   the invariant holds with i = 0 on entry
  inv-keep   from the invariant at an arbitrary i (0 <= i < n) one execution of the *real* loop body
             re-establishes it at i + 1
  after the loop only the invariant at i = n is known of the modified variables.

The invariant is keyed by loop ordinal and by a fingerprint of the loop header, so a moved or rewritten
loop is reported (undecided) instead of being paired with the wrong invariant.
"""
import ast

import z3

from .values import *  # noqa: F401,F403
from .core import HObj


class LoopSpec:
    """fingerprint: ast.unparse of `for <target> in <iter>`.
    modified: names of local variables bound to heap containers the body mutates.
    inv(i, view, ctx) -> list of (name, z3 Bool); view maps each modified name to its payload term."""

    def __init__(self, fingerprint, modified, inv, over="sequence", ghost=(), scalars=()):
        self.fingerprint, self.modified, self.inv = fingerprint, list(modified), inv
        self.ghost = list(ghost)      # ghost-state keys (z3 terms) the loop may change: havocked like `modified`
        self.scalars = list(scalars)  # "obj.attr" boolean / integer fields the loop may assign: havocked as well
        self.over = over      # 'sequence': inv(i, ...) over a prefix length; 'members': inv(done, ...) over the
        #                       set of members already visited (iteration over a set / the keys of a dict, any order)


def header(node):
    if isinstance(node, ast.While):
        return "while %s" % ast.unparse(node.test)
    return "for %s in %s" % (ast.unparse(node.target), ast.unparse(node.iter))


def make_hook(specs):
    def on_loop(I, node, ordinal, it, st):
        spec = specs.get(ordinal)
        if spec is None or header(node) != spec.fingerprint:
            # the loop moved (statements reordered): the invariant follows its loop by the header text, if that is unambiguous
            same = [sp for sp in specs.values() if sp.fingerprint == header(node)]
            if len(same) == 1:
                spec = same[0]
            elif spec is None:
                return None
            else:
                raise Unsupported("loop %d header %r does not match the invariant's fingerprint %r"
                                  % (ordinal, header(node), spec.fingerprint))
        return run(I, node, ordinal, it, st, spec)
    return on_loop


def _ref_of(st, name):
    """`x` (local variable) or `self.attr` (field of a heap object held by a local)"""
    if "." in name:
        base, attr = name.split(".", 1)
        b = st.env.get(base)
        ref = st.heap[b.oid].fields.get(attr) if isinstance(b, VRef) else None
    else:
        ref = st.env.get(name)
    if not isinstance(ref, VRef):
        raise Unsupported("loop-modified variable %s is not a container" % name)
    return ref


def _view(st, spec):
    v = {}
    for name in spec.modified:
        v[name] = st.heap[_ref_of(st, name).oid].payload
    for key in spec.ghost:
        v[key] = st.ghost.get(key)
    for name in spec.scalars:
        base, attr = name.split(".", 1)
        b = st.env.get(base)
        fv = st.heap[b.oid].fields.get(attr) if isinstance(b, VRef) else None
        v[name] = fv.t if isinstance(fv, (VBool, VInt)) else None
    return v


def _havoc(I, st, spec, tag):
    cx = I.cx
    for name in spec.modified:
        ref = _ref_of(st, name)
        h = st.heap[ref.oid]
        fresh = cx.fresh("%s@%s" % (name, tag), h.payload.sort())
        st = st.put(ref.oid, HObj(h.kind, fresh, h.cls, h.fields, {}))
    for key in spec.ghost:
        cur = st.ghost.get(key)
        st = st.gset(key, cx.fresh("%s@%s" % (key, tag), cur.sort()))
    for name in spec.scalars:
        base, attr = name.split(".", 1)
        b = st.env.get(base)
        h = st.heap[b.oid]
        cur = h.fields.get(attr)
        if isinstance(cur, VBool):
            nv = VBool(cx.fresh("%s@%s" % (name, tag), z3.BoolSort()))
        elif isinstance(cur, VInt):
            nv = VInt(cx.fresh("%s@%s" % (name, tag), z3.IntSort()))
        else:
            raise Unsupported("loop-assigned field %s is not a bool/int" % name)
        st = st.put(b.oid, h.with_field(attr, nv))
    return st


def run_while(I, node, ordinal, st, spec):
    """while <cond>: body -- cut at the invariant: inv holds on entry; from inv and cond one execution of the real body
    re-establishes inv; after the loop inv and not cond are known."""
    cx = I.cx
    from .core import truth
    for (nm, c) in spec.inv(None, _view(st, spec), st):
        I.require(st, c, "inv-init#%d:%s" % (ordinal, nm))
    out = []
    sth = _havoc(I, st, spec, "i")
    sth = sth.assume(*[c for (_n, c) in spec.inv(None, _view(sth, spec), sth)])

    def at_head(stx, k_true, k_false):
        return I.ev(node.test, stx, lambda c, s2: cx.branch(s2, truth(cx, c, s2), k_true, k_false))
    frame_before = dict(sth.heap)
    mod_oids = {_ref_of(sth, nm).oid for nm in spec.modified}

    def body(st2):
        res = []
        for (kind, payload, st3) in I.block(node.body, st2):
            if kind in ("next", "continue"):
                _frame(I, st3, frame_before, mod_oids, ordinal)
                for (nm, c) in spec.inv(None, _view(st3, spec), st3):
                    I.require(st3, c, "inv-keep#%d:%s" % (ordinal, nm))
            elif kind in ("raise", "return"):
                res.append((kind, payload, st3))
            elif kind == "break":
                # leaves the loop from this arbitrary iteration, skipping the else clause
                out.append(("next", None, st3.gset("__loop_index__", i)))
            else:
                raise Unsupported("%s inside an invariant loop" % kind)
        return res
    if cx.feasible(sth):
        out += at_head(sth, body, lambda s: [])
    ste = _havoc(I, st, spec, "end")
    ste = ste.assume(*[c for (_n, c) in spec.inv(None, _view(ste, spec), ste)])
    out += at_head(ste, lambda s: [], lambda s: (I.block(node.orelse, s) if node.orelse else [("next", None, s)]))
    return out


def run_members(I, node, ordinal, it, st, spec):
    """Iteration over the members of a set (or the keys of a dict) in an unspecified order: the invariant is
    indexed by the set `done` of members already visited; an arbitrary step visits some member not in `done`."""
    cx = I.cx
    if not isinstance(it, VRef) or st.heap[it.oid].kind not in ("set", "dict"):
        raise Unsupported("member loop over %r" % (it,))
    h = st.heap[it.oid]
    y = z3.Const("y!dom", Val)
    dom = h.payload if h.kind == "set" else mk_lambda(y, h.payload[y] != Opt.none)
    for (nm, c) in spec.inv(EMPTY_SET, _view(st, spec), st):
        I.require(st, c, "inv-init#%d:%s" % (ordinal, nm))
    out = []
    done = cx.fresh("done", SetV)
    key = cx.fresh("member", Val)
    sth = _havoc(I, st, spec, "i")
    sth = sth.assume(z3.ForAll([y], z3.Implies(done[y], dom[y])), dom[key], z3.Not(done[key]),
                     *[c for (_n, c) in spec.inv(done, _view(sth, spec), sth)])
    if cx.feasible(sth):
        frame_before = dict(sth.heap)
        mod_oids = {_ref_of(sth, nm).oid for nm in spec.modified}
        for (kind, payload, st3) in I.assign(node.target, VElem(key), sth, lambda st2: I.block(node.body, st2)):
            if kind in ("next", "continue"):
                _frame(I, st3, frame_before, mod_oids, ordinal)
                for (nm, c) in spec.inv(z3.Store(done, key, z3.BoolVal(True)), _view(st3, spec), st3):
                    I.require(st3, c, "inv-keep#%d:%s" % (ordinal, nm))
            elif kind in ("raise", "return"):
                out.append((kind, payload, st3))
            elif kind == "break":
                # leaves the loop from this arbitrary iteration, skipping the else clause
                out.append(("next", None, st3.gset("__loop_index__", i)))
            else:
                raise Unsupported("%s inside an invariant loop" % kind)
    ste = _havoc(I, st, spec, "end")
    ste = ste.assume(*[c for (_n, c) in spec.inv(dom, _view(ste, spec), ste)])
    out += I.block(node.orelse, ste) if node.orelse else [("next", None, ste)]
    return out


def _frame(I, st3, frame_before, mod_oids, ordinal, ignore=()):
    for o, h in frame_before.items():
        h2 = st3.heap.get(o)
        if o not in mod_oids and h2 is not h:
            f1 = {k: v for k, v in h.fields.items() if k not in ignore}
            f2 = {k: v for k, v in (h2.fields if h2 is not None else {}).items() if k not in ignore}
            same = z3.BoolVal(h2 is not None and f1 == f2 and (h2.payload is None) == (h.payload is None))
            if h2 is not None and h.payload is not None and h2.payload is not None:
                same = z3.And(same, h2.payload == h.payload)
            I.require(st3, same, "inv-keep#%d:frame-nothing-else-modified" % ordinal)


def run(I, node, ordinal, it, st, spec):
    if isinstance(node, ast.While):
        return run_while(I, node, ordinal, st, spec)
    if spec.over == "members":
        return run_members(I, node, ordinal, it, st, spec)
    cx = I.cx
    pair_mode = isinstance(it, VFunc) and it.kind == "pairs"
    unpack2 = None
    if isinstance(node.target, (ast.Tuple, ast.List)) and not pair_mode:
        # `for a, b in <sequence of 2-tuples>`: the elements are opaque pairs
        unpack2 = (z3.Function("pair_first", Val, Val), z3.Function("pair_second", Val, Val))
    if pair_mode:
        ks, vs = it.ks, it.vs
        n = z3.Length(ks)
    else:
        S = I.bi.iter_seq(it, st)
        if S is None:
            raise Unsupported("invariant loop over %r" % (it,))
        n = z3.Length(S)
    # inv-init
    for (nm, c) in spec.inv(z3.IntVal(0), _view(st, spec), st):
        I.require(st, c, "inv-init#%d:%s" % (ordinal, nm))
    out = []
    # arbitrary iteration
    i = cx.fresh_int("iter")
    sth = _havoc(I, st, spec, "i")
    sth = sth.assume(0 <= i, i < n, *[c for (_n, c) in spec.inv(i, _view(sth, spec), sth)])
    if cx.feasible(sth):
        elem = VTuple([VElem(ks[i]), VElem(vs[i])]) if pair_mode else VElem(S[i])
        if unpack2 is not None:
            elem = VTuple([VElem(unpack2[0](S[i])), VElem(unpack2[1](S[i]))])
        frame_before = {o: h for o, h in sth.heap.items()}
        mod_oids = {_ref_of(sth, nm).oid for nm in spec.modified}

        def body(st2):
            return I.block(node.body, st2)
        for (kind, payload, st3) in I.assign(node.target, elem, sth, body):
            if kind in ("next", "continue"):
                _frame(I, st3, frame_before, mod_oids, ordinal, ignore=[n.split(".", 1)[1] for n in spec.scalars])
                for (nm, c) in spec.inv(i + 1, _view(st3, spec), st3):
                    I.require(st3, c, "inv-keep#%d:%s" % (ordinal, nm))
            elif kind in ("raise", "return"):
                out.append((kind, payload, st3.gset("__loop_index__", i)))
            elif kind == "break":
                # leaves the loop from this arbitrary iteration, skipping the else clause
                out.append(("next", None, st3.gset("__loop_index__", i)))
            else:
                raise Unsupported("%s inside an invariant loop" % kind)
    # exit
    ste = _havoc(I, st, spec, "end")
    ste = ste.assume(*[c for (_n, c) in spec.inv(n, _view(ste, spec), ste)])
    # loop variables are bound to some element after a non-empty loop; functions under contract do not read them
    if node.orelse:
        out += I.block(node.orelse, ste)
    else:
        out.append(("next", None, ste))
    return out
