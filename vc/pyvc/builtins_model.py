"""A-BUILTIN: axiomatic model of the CPython builtins the functions under
contract call (list / dict / set / slice / len / isinstance / ...).

Every rule here is an *assumption* about CPython, not about enthought/traits.
The rules are conformance-tested against the running interpreter by
/verif/vc/conformance.py on every run (DESIGN section 5, guard 2).

Sequence operations with step 1 use z3's sequence theory; extended slices use
pointwise, relationally-stated axioms: position p is the j-th selected one iff
p = start + j*step with 0 <= j < count (never (p-start)/step).
"""
import ast
import z3

from .values import *  # noqa: F401,F403
from .core import (HObj, St, raise_, truth, equal, identical, as_val, pyfloordiv, pymod, _as_int)


def ite(c, a, b):
    return z3.If(c, a, b)


def clamp_index(i, n):
    """list.insert-style clamp of index i into 0..n."""
    return ite(i < 0, ite(i + n < 0, z3.IntVal(0), i + n), ite(i > n, n, i))


def slice_indices(cx, sl, n):
    """(a, b, c): the triple slice.indices(n) returns (CPython: PySlice_Unpack + PySlice_AdjustIndices;
    step None -> 1; c == 0 is the caller's ValueError case).

    The triple is returned as three fresh constants *defined* by the If-terms of the CPython algorithm
    (definitional extension), together with their range facts, which are first proved from the
    definitions (a derived lemma, not an assumption) so that later queries see small atoms."""
    key = ("indices", sl.start.is_none.sexpr(), sl.start.t.sexpr(), sl.stop.is_none.sexpr(), sl.stop.t.sexpr(),
           sl.step.is_none.sexpr(), sl.step.t.sexpr(), n.sexpr())
    cache = cx.__dict__.setdefault("_indices", {})
    if key in cache:
        return cache[key]
    c_def = ite(sl.step.is_none, z3.IntVal(1), sl.step.t)
    c = cx.fresh_int("step")
    neg = c < 0

    def adj(comp, dflt_pos, dflt_neg):
        v = comp.t
        v1 = ite(v < 0, v + n, v)
        lo = ite(neg, z3.IntVal(-1), z3.IntVal(0))
        hi = ite(neg, n - 1, n)
        vv = ite(v < 0, ite(v1 < 0, lo, v1), ite(v >= n, hi, v))
        return ite(comp.is_none, ite(neg, dflt_neg, dflt_pos), vv)
    a, b = cx.fresh_int("start"), cx.fresh_int("stop")
    defs = z3.And(c == c_def, a == adj(sl.start, z3.IntVal(0), n - 1), b == adj(sl.stop, n, z3.IntVal(-1)))
    ranges = z3.And(z3.Implies(c > 0, z3.And(0 <= a, a <= n, 0 <= b, b <= n)),
                    z3.Implies(c < 0, z3.And(-1 <= a, a <= n - 1, -1 <= b, b <= n - 1)))
    s = z3.Solver()
    s.set("timeout", 5000)
    s.add(n >= 0, defs, z3.Not(ranges))
    cx.axioms.append(defs)
    if s.check() == z3.unsat:
        cx.axioms.append(z3.Implies(n >= 0, ranges))
        cx.hints.append("derived lemma: range of slice.indices results (proved from the definitions)")
    cache[key] = (a, b, c)
    return a, b, c


def slice_count(a, b, c):
    """Number of positions selected by range(a, b, c), c != 0, without div:
    returned as (count_term, side_conditions) with a fresh witness."""
    raise NotImplementedError


class Builtins:
    FUNCS = {"len", "min", "max", "isinstance", "hasattr", "getattr", "abs", "callable", "id", "sorted",
             "reversed", "iter", "next", "repr", "print", "issubclass", "any", "all", "zip", "enumerate", "range",
             "setattr", "delattr"}

    def __init__(self, cx):
        self.cx = cx
        self.interp = None

    # ------------------------------------------------------------------ heap helpers
    def alloc(self, st, hobj):
        oid = self.cx.new_oid()
        return VRef(oid), st.put(oid, hobj)

    def new_list(self, seq, st, k, pyitems=None, kind="list"):
        meta = {"pyitems": tuple(pyitems)} if pyitems is not None else {}
        r, st2 = self.alloc(st, HObj(kind, seq, None, None, meta))
        return k(r, st2)

    def new_list_from_values(self, vs, st, k):
        try:
            ts = [as_val(self.cx, v, st) for v in vs]
        except Unsupported:
            # a list of engine-level values (e.g. bound methods): keep it concrete only
            r, st2 = self.alloc(st, HObj("list", None, None, None, {"pyitems": tuple(vs), "concrete_only": True}))
            return k(r, st2)
        seq = z3.Concat(*[z3.Unit(t) for t in ts]) if len(ts) > 1 else (z3.Unit(ts[0]) if ts else EMPTY_SEQ)
        return self.new_list(seq, st, k, pyitems=vs)

    def new_dict_from_pairs(self, pairs, st, k):
        if pairs and all(isinstance(kk, VStr) and kk.const is not None for kk, _v in pairs) and \
                any(isinstance(vv, VFunc) for _k, vv in pairs):
            # a literal table {"name": function, ...}: kept at the Python level
            r, st2 = self.alloc(st, HObj("dict", None, None, None, {"pydict": {kk.const: vv for kk, vv in pairs}}))
            return k(r, st2)
        m = EMPTY_MAP
        for kk, vv in pairs:
            m = z3.Store(m, as_val(self.cx, kk, st), Opt.some(as_val(self.cx, vv, st)))
        r, st2 = self.alloc(st, HObj("dict", m))
        return k(r, st2)

    def new_set_from_values(self, vs, st, k):
        s = EMPTY_SET
        for v in vs:
            s = z3.Store(s, as_val(self.cx, v, st), z3.BoolVal(True))
        r, st2 = self.alloc(st, HObj("set", s))
        return k(r, st2)

    def seq_of(self, v, st):
        """SeqV term of a list-like value (list, tuple-of-Val)."""
        if isinstance(v, VRef):
            h = st.heap[v.oid]
            if h.kind in ("list", "tuple") and h.payload is not None:
                return h.payload
        if isinstance(v, VTuple):
            ts = [as_val(self.cx, x, st) for x in v.items]
            return z3.Concat(*[z3.Unit(t) for t in ts]) if len(ts) > 1 else (z3.Unit(ts[0]) if ts else EMPTY_SEQ)
        return None

    def set_payload(self, ref, payload, st):
        h = st.heap[ref.oid]
        return st.put(ref.oid, HObj(h.kind, payload, h.cls, h.fields, {k: v for k, v in h.meta.items() if k not in ("pyitems", "member_set")}))

    def elem(self, t):
        return VElem(t)

    def mk_slice(self, lo, up, sp):
        def opt(v):
            if isinstance(v, VNone):
                return VOptInt(z3.BoolVal(True), z3.IntVal(0))
            if isinstance(v, VInt):
                return VOptInt(z3.BoolVal(False), v.t)
            if isinstance(v, VBool):
                return VOptInt(z3.BoolVal(False), z3.If(v.t, 1, 0))
            if isinstance(v, VOptInt):
                return v
            if isinstance(v, VIdx):
                # int-or-slice used as a slice bound: only the int alternative gets this far without a TypeError
                return VOptInt(z3.BoolVal(False), v.i)
            raise Unsupported("slice component %r" % (v,))
        return VSlice(opt(lo), opt(up), opt(sp))

    def has_method(self, base, name):
        return hasattr(self, "m_%s_%s" % (base, name.strip("_") if name.startswith("__") else name)) or \
            hasattr(self, "m_%s_%s" % (base, name))

    def module_attr(self, mod, name):
        if (mod, name) in (("operator", "index"), ("copy", "deepcopy"), ("copy", "copy"), ("sys", "version_info"),
                           ("weakref", "ref")):
            return VFunc("builtin", name=mod + "." + name)
        raise Unsupported("module attribute %s.%s" % (mod, name))

    # ------------------------------------------------------------------ slices over sequences
    # canonical extended-slice primitives (ascending description lo, stp >= 1, cnt >= 0 of the selected positions)
    EXT_GET = z3.Function("ext_get", SeqV, z3.IntSort(), z3.IntSort(), z3.IntSort(), SeqV)
    EXT_SET = z3.Function("ext_set", SeqV, z3.IntSort(), z3.IntSort(), z3.IntSort(), SeqV, SeqV)
    EXT_DEL = z3.Function("ext_del", SeqV, z3.IntSort(), z3.IntSort(), z3.IntSort(), SeqV)
    REV = z3.Function("rev", SeqV, SeqV)

    def rev(self, s):
        r = self.REV(s)
        key = ("rev", s.sexpr())
        cache = self.cx.__dict__.setdefault("_revs", set())
        if key not in cache:
            cache.add(key)
            self.cx.axioms.append(z3.And(z3.Length(r) == z3.Length(s), self.REV(r) == s,
                                         z3.Implies(z3.Length(s) <= 1, r == s)))
        return r

    def ext_get(self, s, lo, stp, cnt):
        r = self.EXT_GET(s, lo, stp, cnt)
        self.cx.axioms.append(z3.And(z3.Length(r) == cnt, z3.Implies(cnt == 0, r == EMPTY_SEQ),
                                     z3.Implies(stp == 1, r == z3.Extract(s, lo, cnt)),
                                     z3.Implies(cnt == 1, r == z3.Extract(s, lo, 1))))
        return r

    def ext_set(self, s, lo, stp, cnt, t):
        r = self.EXT_SET(s, lo, stp, cnt, t)
        n = z3.Length(s)
        self.cx.axioms.append(z3.And(
            z3.Length(r) == n, z3.Implies(cnt == 0, r == s),
            z3.Implies(z3.And(stp == 1, 0 <= lo, lo + cnt <= n, z3.Length(t) == cnt),
                       r == z3.Concat(z3.Extract(s, 0, lo), t, z3.Extract(s, lo + cnt, n - lo - cnt))),
            z3.Implies(z3.And(cnt == 1, 0 <= lo, lo < n, z3.Length(t) == 1),
                       r == z3.Concat(z3.Extract(s, 0, lo), t, z3.Extract(s, lo + 1, n - lo - 1)))))
        return r

    def ext_del(self, s, lo, stp, cnt):
        r = self.EXT_DEL(s, lo, stp, cnt)
        n = z3.Length(s)
        self.cx.axioms.append(z3.And(
            z3.Length(r) == n - cnt, z3.Implies(cnt == 0, r == s),
            z3.Implies(z3.And(cnt == 1, 0 <= lo, lo < n),
                       r == z3.Concat(z3.Extract(s, 0, lo), z3.Extract(s, lo + 1, n - lo - 1))),
            z3.Implies(z3.And(stp == 1, 0 <= lo, lo + cnt <= n),
                       r == z3.Concat(z3.Extract(s, 0, lo), z3.Extract(s, lo + cnt, n - lo - cnt)))))
        return r

    def asc(self, a, c, cnt):
        """ascending description (lo, stp) of the positions a, a+c, ..., a+(cnt-1)c."""
        return ite(c > 0, a, a + (cnt - 1) * c), ite(c > 0, c, -c)

    def range_count(self, a, b, c, st):
        """count of range(a, b, c) for c != 0, via a fresh witness n:
           c>0: n = 0 if b<=a else the unique n>=1 with a+(n-1)c < b <= a+nc ; symmetric for c<0."""
        cx = self.cx
        key = ("cnt", a.sexpr(), b.sexpr(), c.sexpr())
        cache = cx.__dict__.setdefault("_cnt", {})
        if key in cache:
            return cache[key]
        n = cx.fresh_int("cnt")
        fact = z3.And(
            n >= 0,
            z3.Implies(z3.And(c > 0, b <= a), n == 0),
            z3.Implies(z3.And(c > 0, b > a), z3.And(n >= 1, a + (n - 1) * c < b, b <= a + n * c)),
            z3.Implies(z3.And(c < 0, b >= a), n == 0),
            z3.Implies(z3.And(c < 0, b < a), z3.And(n >= 1, a + (n - 1) * c > b, b >= a + n * c)),
        )
        # special-case linear forms so the common step-1 paths stay linear
        fact = z3.And(fact, z3.Implies(c == 1, n == ite(b > a, b - a, z3.IntVal(0))),
                      z3.Implies(c == -1, n == ite(a > b, a - b, z3.IntVal(0))))
        cx.axioms.append(fact)
        cx.hints.append("range-count witness for range(%s,%s,%s)" % key[1:])
        cache[key] = n
        return n

    # ------------------------------------------------------------------ item access
    def getitem(self, obj, key, st, k):
        cx = self.cx
        obj = cx.resolve_ref(obj, st)
        if isinstance(obj, VFunc) and obj.kind == "strsplit":
            i = z3.simplify(key.t).as_long() if isinstance(key, VInt) and z3.is_int_value(z3.simplify(key.t)) else None
            if i not in (0, -1):
                raise Unsupported("item %r of a split string" % (key,))
            t, rest = cx.fresh("segment", StrS), cx.fresh("rest", StrS)
            # the last (first) segment: free of the separator, and the string is it alone or <rest><sep><segment> (<segment><sep><rest>)
            whole = obj.s == t
            split = obj.s == (z3.Concat(rest, obj.sep, t) if i == -1 else z3.Concat(t, obj.sep, rest))
            return k(VStr(t), st.assume(z3.Not(z3.Contains(t, obj.sep)), z3.Or(z3.And(whole, z3.Not(z3.Contains(obj.s, obj.sep))), split)))
        if isinstance(obj, VTuple):
            if isinstance(key, VInt) and z3.is_int_value(z3.simplify(key.t)):
                i = z3.simplify(key.t).as_long()
                if -len(obj.items) <= i < len(obj.items):
                    return k(obj.items[i], st)
                return raise_(st, "IndexError")
            raise Unsupported("symbolic index into a Python-level tuple")
        if isinstance(obj, VRef):
            h = st.heap[obj.oid]
            if h.cls:
                found = self.interp.find_method(h.cls, "__getitem__")
                if found and found[0] == "repo":
                    return self.interp.call(VFunc("bound", self_ref=obj, cls=found[1], name="__getitem__", node=found[2]),
                                            [key], {}, st, k)
            if h.kind in ("list", "tuple"):
                return self.list_getitem(obj, key, st, k)
            if h.kind == "dict" and "pydict" in h.meta:
                table = h.meta["pydict"]
                if isinstance(key, VStr) and key.const is not None:
                    return k(table[key.const], st) if key.const in table else raise_(st, "KeyError")
                if isinstance(key, VStr) and key.t is not None:
                    out = []
                    for name, v in table.items():
                        out += cx.branch(st, key.t == z3.StringVal(name), lambda s, v=v: k(v, s), lambda s: [])
                    out += cx.branch(st, z3.And(*[key.t != z3.StringVal(n_) for n_ in table]), lambda s: raise_(s, "KeyError"), lambda s: [])
                    return out
                raise Unsupported("literal table indexed by %r" % (key,))
            if h.kind == "dict":
                kv = as_val(cx, key, st)
                return cx.branch(st, h.payload[kv] != Opt.none,
                                 lambda a: k(VElem(Opt.get(h.payload[kv])), a),
                                 lambda b: raise_(b, "KeyError"))
        if isinstance(obj, VFunc) and obj.kind == "objdict":
            return self.objdict_get(obj.ref, key, st, k)
        if isinstance(obj, VStr) and obj.t is not None and isinstance(key, (VInt, VBool)):
            n = z3.Length(obj.t)
            i = _as_int(key)
            return cx.branch(st, z3.And(-n <= i, i < n), lambda s1: k(VStr(z3.SubString(obj.t, ite(i < 0, i + n, i), 1)), s1),
                             lambda s2: raise_(s2, "IndexError"))
        if isinstance(obj, VStr) and obj.t is not None and isinstance(key, VSlice):
            n = z3.Length(obj.t)
            a, b, c = slice_indices(cx, key, n)
            return cx.branch(st, c == 1, lambda s1: k(VStr(z3.SubString(obj.t, a, ite(b < a, z3.IntVal(0), b - a))), s1),
                             lambda s2: (_ for _ in ()).throw(Unsupported("extended slice of a string")))
        hk = getattr(cx, "getitem_hook", None)
        if hk is not None:
            r = hk(self.interp, obj, key, st, k)
            if r is not None:
                return r
        raise Unsupported("subscript of %r" % (obj,))

    def list_getitem(self, obj, key, st, k):
        cx = self.cx
        seq = st.heap[obj.oid].payload
        items = st.heap[obj.oid].meta.get("pyitems")
        concrete_key = isinstance(key, VSlice) and all(
            z3.is_true(z3.simplify(c.is_none)) or (z3.is_false(z3.simplify(c.is_none)) and z3.is_int_value(z3.simplify(c.t)))
            for c in (key.start, key.stop, key.step))
        if seq is None or (items is not None and concrete_key):
            # a list whose items are known one by one (a literal): a constant slice of it is again such a list
            if items is not None and isinstance(key, VSlice):
                def cst(c):
                    if z3.is_true(z3.simplify(c.is_none)):
                        return None
                    v = z3.simplify(c.t)
                    if z3.is_false(z3.simplify(c.is_none)) and z3.is_int_value(v):
                        return v.as_long()
                    raise Unsupported("symbolic slice of a concrete-only list")
                sl = slice(cst(key.start), cst(key.stop), cst(key.step))
                return self.new_list_from_values(list(items)[sl], st, k)
            raise Unsupported("indexing a concrete-only list")
        n = z3.Length(seq)
        if isinstance(key, (VInt, VBool)):
            i = _as_int(key)
            ok = z3.And(-n <= i, i < n)
            return cx.branch(st, ok, lambda a: k(VElem(seq[ite(i < 0, i + n, i)]), a),
                             lambda b: raise_(b, "IndexError"))
        if isinstance(key, VSlice):
            a, b, c = slice_indices(cx, key, n)

            def nonzero(st2):
                def step1(st3):
                    hi = ite(b < a, a, b)
                    return self.new_list(z3.Extract(seq, a, hi - a), st3, k)

                def stepx(st3):
                    cnt = self.range_count(a, b, c, st3)
                    lo, stp = self.asc(a, c, cnt)
                    g = self.ext_get(seq, lo, stp, cnt)
                    return cx.branch(st3, c > 0, lambda s4: self.new_list(g, s4, k),
                                     lambda s5: self.new_list(self.rev(g), s5, k))
                return cx.branch(st2, c == 1, step1, stepx)
            return cx.branch(st, c == 0, lambda s0: raise_(s0, "ValueError", origin="slice-step-zero"), nonzero)
        raise Unsupported("list index %r" % (key,))

    def setitem(self, obj, key, v, st, k):
        cx = self.cx
        obj = cx.resolve_ref(obj, st)
        if isinstance(obj, VRef):
            h = st.heap[obj.oid]
            if h.cls:
                found = self.interp.find_method(h.cls, "__setitem__")
                if found and found[0] == "repo":
                    return self.interp.call(VFunc("bound", self_ref=obj, cls=found[1], name="__setitem__", node=found[2]),
                                            [key, v], {}, st, k)
            if h.kind == "list":
                return self.m_list_setitem(obj, [key, v], {}, st, k)
            if h.kind == "dict":
                return self.m_dict_setitem(obj, [key, v], {}, st, k)
        if isinstance(obj, VFunc) and obj.kind == "objdict":
            return self.objdict_set(obj.ref, key, v, st, k)
        hk = getattr(cx, "setitem_hook", None)
        if hk is not None:
            r = hk(self.interp, obj, key, v, st, k)
            if r is not None:
                return r
        raise Unsupported("item assignment on %r" % (obj,))

    def delitem(self, obj, key, st, k):
        obj = self.cx.resolve_ref(obj, st)
        if isinstance(obj, VRef):
            h = st.heap[obj.oid]
            if h.cls:
                found = self.interp.find_method(h.cls, "__delitem__")
                if found and found[0] == "repo":
                    return self.interp.call(VFunc("bound", self_ref=obj, cls=found[1], name="__delitem__", node=found[2]),
                                            [key], {}, st, k)
            if h.kind == "list":
                return self.m_list_delitem(obj, [key], {}, st, k)
            if h.kind == "dict":
                return self.m_dict_delitem(obj, [key], {}, st, k)
        if isinstance(obj, VFunc) and obj.kind == "objdict":
            return self.objdict_del(obj.ref, key, st, k)
        hk = getattr(self.cx, "delitem_hook", None)
        if hk is not None:
            r = hk(self.interp, obj, key, st, k)
            if r is not None:
                return r
        raise Unsupported("item deletion on %r" % (obj,))

    def contains(self, cont, item, st, k):
        cx = self.cx
        cont = cx.resolve_ref(cont, st)
        if isinstance(cont, VRef):
            h = st.heap[cont.oid]
            if h.cls:
                found = self.interp.find_method(h.cls, "__contains__")
                if found and found[0] == "repo":
                    raise Unsupported("repo-defined __contains__")
            x = as_val(cx, item, st)
            if h.kind in ("list", "tuple"):
                return k(VBool(z3.Contains(h.payload, z3.Unit(x))), st)
            if h.kind == "dict":
                return k(VBool(h.payload[x] != Opt.none), st)
            if h.kind == "set":
                return k(VBool(h.payload[x]), st)
        if isinstance(cont, VTuple):
            return k(VBool(z3.Or(*[equal(cx, item, y, st) for y in cont.items]) if cont.items else z3.BoolVal(False)), st)
        if isinstance(cont, VFunc) and cont.kind == "objdict":
            if isinstance(item, VStr) and item.const is not None:
                return k(VBool(item.const in st.heap[cont.ref.oid].fields), st)
        hk = getattr(cx, "contains_hook", None)
        if hk is not None:
            r = hk(self.interp, cont, item, st, k)
            if r is not None:
                return r
        raise Unsupported("membership in %r" % (cont,))

    # ------------------------------------------------------------------ object __dict__
    def objdict_get(self, ref, key, st, k):
        if isinstance(key, VStr) and key.const is not None:
            f = st.heap[ref.oid].fields
            if key.const in f:
                return k(f[key.const], st)
            return raise_(st, "KeyError")
        raise Unsupported("symbolic key into __dict__")

    def objdict_set(self, ref, key, v, st, k):
        if isinstance(key, VStr) and key.const is not None:
            return k(NONE, st.put(ref.oid, st.heap[ref.oid].with_field(key.const, v)))
        raise Unsupported("symbolic key into __dict__")

    def objdict_del(self, ref, key, st, k):
        if isinstance(key, VStr) and key.const is not None:
            h = st.heap[ref.oid]
            if key.const in h.fields:
                return k(NONE, st.put(ref.oid, h.without_field(key.const)))
            return raise_(st, "KeyError")
        raise Unsupported("symbolic key into __dict__")

    # ------------------------------------------------------------------ iteration helper
    def iter_seq(self, it, st):
        """SeqV of the items an iterable yields (A-CB: iterables are finite, do not raise,
        and do not alias mutable state changed during the iteration)."""
        s = self.seq_of(it, st)
        if s is not None:
            return s
        if isinstance(it, VRef):
            h = st.heap[it.oid]
            if h.kind == "set":
                return self.set_order(h.payload)
            if h.kind == "dict":
                return self.dict_order(h.payload)[0]
        if isinstance(it, VFunc) and it.kind == "iterable":
            return it.seq
        return None

    def set_order(self, s):
        """Some enumeration of set s without repetition (iteration order is unspecified):
        a fresh sequence constrained pointwise."""
        cx = self.cx
        key = ("setorder", s.sexpr())
        cache = cx.__dict__.setdefault("_ord", {})
        if key in cache:
            return cache[key]
        q = cx.fresh("order", SeqV)
        i, j = z3.Ints("i!o j!o")
        x = z3.Const("x!o", Val)
        cx.axioms.append(z3.And(
            z3.ForAll([i], z3.Implies(z3.And(0 <= i, i < z3.Length(q)), s[q[i]])),
            z3.ForAll([x], z3.Implies(s[x], z3.Contains(q, z3.Unit(x)))),
            z3.ForAll([i, j], z3.Implies(z3.And(0 <= i, i < j, j < z3.Length(q)), q[i] != q[j]))))
        cache[key] = q
        return q

    def dict_order(self, m):
        cx = self.cx
        key = ("dictorder", m.sexpr())
        cache = cx.__dict__.setdefault("_ord", {})
        if key in cache:
            return cache[key]
        ks = cx.fresh("korder", SeqV)
        vs = cx.fresh("vorder", SeqV)
        i, j = z3.Ints("i!o j!o")
        x = z3.Const("x!o", Val)
        cx.axioms.append(z3.And(
            z3.Length(ks) == z3.Length(vs),
            z3.ForAll([i], z3.Implies(z3.And(0 <= i, i < z3.Length(ks)), m[ks[i]] == Opt.some(vs[i]))),
            z3.ForAll([x], z3.Implies(m[x] != Opt.none, z3.Contains(ks, z3.Unit(x)))),
            z3.ForAll([i, j], z3.Implies(z3.And(0 <= i, i < j, j < z3.Length(ks)), ks[i] != ks[j]))))
        cache[key] = (ks, vs)
        return ks, vs

    # ------------------------------------------------------------------ comprehensions (pure-map schema)
    def comprehension(self, kind, node, st, k):
        """[elt for x in S] / {elt ...} / {k: v ...} with a single generator, no condition
        (or a pure condition), whose element expression has no effect on the state:
        evaluated once on a generic element and lifted pointwise (map schema).
        Outcome A: every element evaluates normally -> result defined pointwise.
        Outcome B_i: there is a first index at which outcome i of the element expression raises."""
        I = self.interp
        cx = self.cx
        if len(node.generators) != 1 or node.generators[0].is_async:
            raise Unsupported("comprehension with several generators")
        g = node.generators[0]

        def k_iter(it, st2):
            if g.ifs:
                items0 = I.concrete_items(it, st2)
                if items0 is None:
                    raise Unsupported("comprehension with a condition over a symbolic iterable")
                return self.concrete_comp(kind, node, g, items0, st2, k)
            if kind == "list" and isinstance(it, VRef) and st2.heap[it.oid].kind == "set":
                # a list built from the members of a set: order (and multiplicity of equal images) unspecified;
                # what is known is its member set, the image of the set
                def as_list(r, st3):
                    R = st3.heap[r.oid].payload
                    L = cx.fresh("listed", SeqV)
                    y = z3.Const("y!ls", Val)
                    st4 = st3.assume(z3.ForAll([y], z3.Contains(L, z3.Unit(y)) == R[y]))
                    ref, st5 = self.alloc(st4, HObj("list", L, None, None, {"member_set": R}))
                    return k(ref, st5)
                return self.set_image(node, g, st2.heap[it.oid].payload, st2, as_list)
            if kind == "set":
                try:
                    src = self._as_set_term(it, st2)
                except Unsupported:
                    src = None
                if src is not None and not (isinstance(it, VTuple)):
                    return self.set_image(node, g, src, st2, k)
            items = I.concrete_items(it, st2)
            if items is not None and not (isinstance(it, VRef) and st2.heap[it.oid].payload is not None and len(items) > 3):
                return self.concrete_comp(kind, node, g, items, st2, k)
            pair_mode = False
            if isinstance(it, VFunc) and it.kind == "pairs":
                pair_mode = True
                S_k, S_v = it.ks, it.vs
                n = z3.Length(S_k)
            else:
                S = self.iter_seq(it, st2)
                if S is None:
                    raise Unsupported("comprehension over %r" % (it,))
                n = z3.Length(S)
            xj = cx.fresh("x", Val)
            yj = cx.fresh("y", Val)
            loopv = VTuple([VElem(xj), VElem(yj)]) if pair_mode else VElem(xj)
            outs = []

            def body(st3):
                if kind == "dict":
                    return I.ev(node.key, st3, lambda kv, s4: I.ev(node.value, s4, lambda vv, s5: [("elt", (kv, vv), s5)]))
                return I.ev(node.elt, st3, lambda v, s4: [("elt", v, s4)])
            base = St(st2.env, st2.heap, (), st2.ghost)    # evaluate the element under an empty path condition
            for (kd, payload, st3) in I.assign(g.target, loopv, base, body):
                if st3.heap is not base.heap and any(st3.heap.get(o) is not base.heap.get(o) for o in base.heap):
                    raise Unsupported("comprehension element mutates the heap")
                outs.append((kd, payload, z3.And(*st3.pc) if st3.pc else z3.BoolVal(True), st3))
            normals = [o for o in outs if o[0] == "elt"]
            raises = [o for o in outs if o[0] == "raise"]
            if len(normals) != 1 or len(normals) + len(raises) != len(outs):
                raise Unsupported("comprehension element with %d normal outcomes" % len(normals))
            _, nv, ncond, _ = normals[0]
            j = z3.Int("j!c")

            def at(term, idx):
                if pair_mode:
                    return z3.substitute(term, (xj, S_k[idx]), (yj, S_v[idx]))
                return z3.substitute(term, (xj, S[idx]))
            res = []
            # outcome A
            if kind == "list":
                rv = as_val(cx, nv, st2)
                if pair_mode:
                    R = cx.fresh("mapped", SeqV)
                else:
                    R = cx.map_fn(rv, xj)(S)
                axA = z3.And(z3.Length(R) == n,
                             z3.ForAll([j], z3.Implies(z3.And(0 <= j, j < n), z3.And(at(ncond, j), R[j] == at(rv, j)))))
                res += self.new_list(R, st2.assume(axA), k)
            elif kind == "set":
                R = cx.fresh("mappedset", SetV)
                rv = as_val(cx, nv, st2)
                y = z3.Const("y!c", Val)
                axA = z3.And(z3.ForAll([j], z3.Implies(z3.And(0 <= j, j < n), z3.And(at(ncond, j), R[at(rv, j)]))),
                             z3.ForAll([y], z3.Implies(R[y], z3.Exists([j], z3.And(0 <= j, j < n, at(rv, j) == y)))))
                r, st3 = self.alloc(st2.assume(axA), HObj("set", R))
                res += k(r, st3)
            else:
                kv, vv = nv
                kt, vt = as_val(cx, kv, st2), as_val(cx, vv, st2)
                if not pair_mode:
                    raise Unsupported("dict comprehension over a non-pair iterable")
                from z3 import z3util
                kvars = {str(v) for v in z3util.get_vars(kt)}
                vvars = {str(v) for v in z3util.get_vars(vt)}
                if str(yj) in kvars or str(xj) in vvars:
                    raise Unsupported("dict comprehension whose key depends on the value variable")
                MK = cx.map_fn(kt, xj)(S_k)
                MV = cx.map_fn(vt, yj)(S_v)
                axA = z3.And(
                    z3.Length(MK) == n, z3.Length(MV) == n,
                    z3.ForAll([j], z3.Implies(z3.And(0 <= j, j < n), z3.And(
                        at(ncond, j), MK[j] == z3.substitute(kt, (xj, S_k[j])), MV[j] == z3.substitute(vt, (yj, S_v[j]))))))
                R = self.dict_fold(EMPTY_MAP, MK, MV, n)
                r, st3 = self.alloc(st2.assume(axA), HObj("dict", R))
                res += k(r, st3)
            # outcomes B_i
            for (_, exc, rcond, _s) in raises:
                kk = cx.fresh_int("kfail")
                axB = z3.And(0 <= kk, kk < n, at(rcond, kk),
                             z3.ForAll([j], z3.Implies(z3.And(0 <= j, j < kk), at(ncond, j))))
                e2 = self.subst_exc(exc, at, kk)
                stB = st2.assume(axB)
                if e2.sym is not None:
                    stB = stB.assume(*cx.exc_axioms(e2.sym))
                if cx.feasible(stB):
                    res.append(("raise", e2, stB.gset("__fail_index__", kk)))
            return res
        return I.ev(g.iter, st, k_iter)

    def set_image(self, node, g, src, st, k, partial_into=None):
        """{elt(x) for x in <members of src>}: image of a member set under a state-pure element expression.
        Outcome A: every member evaluates normally, result = image.  Outcome B_i: some member makes outcome i of
        the element expression raise (which one is met first depends on the unspecified iteration order)."""
        I, cx = self.interp, self.cx
        xj = cx.fresh("x", Val)
        outs = []
        base = St(st.env, st.heap, (), st.ghost)
        for (kd, payload, st3) in I.assign(g.target, VElem(xj), base,
                                           lambda s3: I.ev(node.elt, s3, lambda v, s4: [("elt", v, s4)])):
            if any(st3.heap.get(o) is not base.heap.get(o) for o in base.heap):
                raise Unsupported("comprehension element mutates the heap")
            outs.append((kd, payload, z3.And(*st3.pc) if st3.pc else z3.BoolVal(True)))
        normals = [o for o in outs if o[0] == "elt"]
        raises = [o for o in outs if o[0] == "raise"]
        if len(normals) != 1 or len(normals) + len(raises) != len(outs):
            raise Unsupported("comprehension element with %d normal outcomes" % len(normals))
        _, nv, ncond = normals[0]
        rv = as_val(cx, nv, st)
        x, y = z3.Const("x!img", Val), z3.Const("y!img", Val)
        F = cx.image_fn(rv, xj)
        R = F(src)
        sub = lambda t, w: z3.substitute(t, (xj, w))
        axA = z3.And(z3.ForAll([x], z3.Implies(src[x], z3.And(sub(ncond, x), R[sub(rv, x)]))),
                     z3.ForAll([y], z3.Implies(R[y], z3.Exists([x], z3.And(src[x], sub(rv, x) == y)))))
        res = []
        r, st2 = self.alloc(st.assume(axA), HObj("set", R))
        res += k(r, st2)
        for (_, exc, rcond) in raises:
            xb = cx.fresh("xbad", Val)
            e2 = self.subst_exc(exc, lambda t, _i: z3.substitute(t, (xj, xb)), None)
            stB = st.assume(src[xb], sub(rcond, xb))
            if e2.sym is not None:
                stB = stB.assume(*cx.exc_axioms(e2.sym))
            if cx.feasible(stB):
                res.append(("raise", e2, stB.gset("__fail_member__", xb)))
        return res

    def subst_exc(self, exc, at, idx):
        e = VExc(cname=exc.cname, sym=at(exc.sym, idx) if exc.sym is not None else None,
                 origin=exc.origin if not isinstance(exc.origin, tuple) else tuple(
                     at(o, idx) if z3.is_expr(o) else o for o in exc.origin), args=exc.args)
        return e

    def concrete_comp(self, kind, node, g, items, st, k):
        I = self.interp

        def go(i, acc, st2):
            if i == len(items):
                if kind == "list":
                    return self.new_list_from_values(acc, st2, k)
                if kind == "set":
                    return self.new_set_from_values(acc, st2, k)
                return self.new_dict_from_pairs(acc, st2, k)

            def take(st3):
                if kind == "dict":
                    return I.ev(node.key, st3, lambda kv, s4: I.ev(node.value, s4, lambda vv, s5: go(i + 1, acc + [(kv, vv)], s5)))
                return I.ev(node.elt, st3, lambda v, s4: go(i + 1, acc + [v], s4))

            def body(st3, j=0):
                if j == len(g.ifs):
                    return take(st3)
                return I.ev(g.ifs[j], st3, lambda c, s4: self.cx.branch(
                    s4, truth(self.cx, c, s4), lambda a: body(a, j + 1), lambda b: go(i + 1, acc, b)))
            return I.assign(g.target, items[i], st2, body)
        return go(0, [], st)

    def consume(self, it, st, k):
        """Consume an iterable argument item by item (list(x), list.extend(x), set.update(x) ...).
        k(seq, st) on normal exhaustion.  A generator expression is evaluated with the map
        schema; if its k-th element raises, the consumer has already received k-1 items:
        k_partial(seq_prefix, exc, st) is called when given, else the exception propagates."""
        if isinstance(it, VGen):
            fake = ast.ListComp(elt=it.node.elt, generators=it.node.generators)
            ast.copy_location(fake, it.node)
            return self.comprehension("list", fake, st.with_env(it.env),
                                      lambda r, st2: k(st2.heap[r.oid].payload, st2.with_env(st.env)))
        s = self.iter_seq(it, st)
        if s is None:
            raise Unsupported("iteration over %r" % (it,))
        return k(s, st)

    def unfold_gen(self, gen, st, k):
        """(elt for <target> in <known tuple>) or (... in zip(<known tuple>, <known tuple>)), no conditions: evaluated item by
        item in order (an exception of the k-th element stops the evaluation there); k(list of values, st).  None when the
        generator is not of that shape."""
        I, cx = self.interp, self.cx
        if len(gen.node.generators) != 1 or gen.node.generators[0].ifs:
            return None
        g = gen.node.generators[0]
        it = g.iter
        is_zip = isinstance(it, ast.Call) and isinstance(it.func, ast.Name) and it.func.id == "zip" and not it.keywords and "zip" not in gen.env
        srcs = list(it.args) if is_zip else [it]
        if not all(isinstance(a, (ast.Name, ast.Attribute, ast.Tuple)) for a in srcs):
            return None
        # shape test without side effects: names / attribute chains only
        vals = []

        def ev_srcs(i, st1):
            if i == len(srcs):
                if not all(isinstance(v, VTuple) for v in vals):
                    raise Unsupported("generator over %r" % (vals,))
                n = min(len(v.items) for v in vals)
                rows = [VTuple([v.items[j] for v in vals]) if is_zip else vals[0].items[j] for j in range(n)]
                out = []

                def go(j, st2):
                    if j == len(rows):
                        return k(list(out[:]), st2.with_env(st.env))
                    return I.assign(g.target, rows[j], st2, lambda st3: I.ev(gen.node.elt, st3, lambda v, st4: (out.__setitem__(slice(j, None), [v]), go(j + 1, st4))[1]))
                return go(0, st1.with_env(dict(gen.env)))
            return I.ev(srcs[i], st1, lambda v, st2: (vals.__setitem__(slice(i, None), [v]), ev_srcs(i + 1, st2))[1])
        return ev_srcs(0, st.with_env(dict(gen.env)))

    # ------------------------------------------------------------------ builtin functions
    def call_builtin(self, name, args, kwargs, st, k):
        cx = self.cx
        I = self.interp
        if name == "id" and len(args) == 1:
            t = as_val(cx, args[0], st)
            return k(VInt(z3.Function("id_of", Val, z3.IntSort())(t)), st)
        if name == "len":
            (x,) = args
            x = cx.resolve_ref(x, st)
            if isinstance(x, VRef):
                h = st.heap[x.oid]
                if h.kind in ("list", "tuple") and h.payload is not None:
                    return k(VInt(z3.Length(h.payload)), st)
                if "pyitems" in h.meta:
                    return k(VInt(len(h.meta["pyitems"])), st)
            if isinstance(x, VRef) and st.heap[x.oid].kind in ("set", "dict"):
                h = st.heap[x.oid]
                card = z3.Function("card_" + h.kind, h.payload.sort(), z3.IntSort())(h.payload)
                empty = EMPTY_SET if h.kind == "set" else EMPTY_MAP
                cx.axioms.append(z3.And(card >= 0, (card == 0) == (h.payload == empty)))
                return k(VInt(card), st)
            if isinstance(x, VTuple):
                return k(VInt(len(x.items)), st)
            if isinstance(x, VStr) and x.t is not None:
                return k(VInt(z3.Length(x.t)), st)
            hk = getattr(cx, "len_hook", None)
            if hk is not None:
                r = hk(I, x, st, k)
                if r is not None:
                    return r
            raise Unsupported("len of %r" % (x,))
        if name in ("min", "max"):
            if len(args) == 2 and all(_as_int(a) is not None for a in args) and not kwargs:
                a, b = _as_int(args[0]), _as_int(args[1])
                return k(VInt(ite(a <= b, a, b) if name == "min" else ite(a >= b, a, b)), st)
            raise Unsupported("%s of %r" % (name, args))
        if name == "abs" and isinstance(args[0], VInt):
            return k(VInt(ite(args[0].t < 0, -args[0].t, args[0].t)), st)
        if name == "isinstance":
            return k(VBool(self.isinstance_(args[0], args[1], st)), st)
        if name == "reversed" and len(args) == 1:
            sq = self.seq_of(cx.resolve_ref(args[0], st), st)
            if sq is None:
                raise Unsupported("reversed of %r" % (args[0],))
            return k(VFunc("iterable", seq=self.rev(sq)), st)
        if name == "chain.from_iterable":
            (its,) = args
            if not isinstance(its, VTuple):
                raise Unsupported("chain.from_iterable of a non-tuple")
            x = z3.Const("x!ch", Val)
            terms = [self._as_set_term(i, st) for i in its.items]
            u = mk_lambda(x, z3.Or(*[t[x] for t in terms])) if terms else EMPTY_SET
            return k(VFunc("members", set=u), st)
        if name == "type" and len(args) == 1 and isinstance(args[0], VRef) and st.heap[args[0].oid].cls:
            return k(VFunc("class", name=st.heap[args[0].oid].cls), st)
        if name == "operator.index":
            (x,) = args
            if isinstance(x, VInt):
                return k(x, st)
            if isinstance(x, VBool):
                return k(VInt(_as_int(x)), st)
            raise Unsupported("operator.index of %r" % (x,))
        if name == "setattr":
            hk = getattr(cx, "dyn_setattr_hook", None)
            if hk is not None:
                r = hk(I, args, st, k)
                if r is not None:
                    return r
            raise Unsupported("setattr builtin")
        if name == "hasattr":
            return self.hasattr_(args[0], args[1], st, k)
        if name == "getattr":
            if not (isinstance(args[1], VStr) and args[1].const is not None):
                hk = getattr(cx, "dyn_getattr_hook", None)
                if hk is not None:
                    r = hk(I, args, st, k)
                    if r is not None:
                        return r
                raise Unsupported("getattr with symbolic name")
            if len(args) == 2:
                return I.getattr(args[0], args[1].const, st, k)
            out = []
            for (kind, payload, st2) in I.getattr(args[0], args[1].const, st, lambda v, s2: [("val", v, s2)]):
                if kind == "val":
                    out += k(payload, st2)
                elif kind == "raise" and payload.cname == "AttributeError":
                    out += k(args[2], st2)
                else:
                    out.append((kind, payload, st2))
            return out
        if name == "callable":
            x = args[0]
            if isinstance(x, VFunc):
                return k(VBool(True), st)
            if isinstance(x, (VNone, VInt, VBool, VStr)):
                return k(VBool(False), st)
        if name == "copy.deepcopy" or name == "copy.copy":
            hk = getattr(cx, "copy_hook", None)
            if hk is not None:
                r = hk(I, name, args, st, k)
                if r is not None:
                    return r
        if name == "weakref.ref":
            hk = getattr(cx, "weakref_hook", None)
            if hk is not None:
                return hk(I, args, st, k)
        if name in ("all", "any") and len(args) == 1 and isinstance(args[0], VGen):
            # all(... for x in <tuple display / known tuple>) : unfolded item by item with the short-circuit of the builtin
            gen = args[0]
            g = gen.node.generators[0]
            if len(gen.node.generators) == 1 and not g.ifs and isinstance(g.target, ast.Name):
                from .core import truth as _truth
                want_all = name == "all"

                def k_it(it, st2):
                    if isinstance(it, VRef) and st2.heap[it.oid].kind in ("list", "tuple") and st2.heap[it.oid].meta.get("pyitems") is not None:
                        it = VTuple(list(st2.heap[it.oid].meta["pyitems"]))          # a list known item by item (display + appends)
                    if not isinstance(it, VTuple):
                        raise Unsupported("%s() over %r" % (name, it))
                    items = list(it.items)

                    def go(i, st3):
                        if i == len(items):
                            return k(VBool(z3.BoolVal(want_all)), st3.with_env(st.env))
                        env = dict(gen.env)
                        env[g.target.id] = items[i]

                        def k_el(v, st4):
                            c = _truth(cx, v, st4)
                            if want_all:
                                return cx.branch(st4, c, lambda a: go(i + 1, a), lambda b: k(VBool(z3.BoolVal(False)), b.with_env(st.env)))
                            return cx.branch(st4, c, lambda a: k(VBool(z3.BoolVal(True)), a.with_env(st.env)), lambda b: go(i + 1, b))
                        return I.ev(gen.node.elt, st3.with_env(env), k_el)
                    return go(0, st2)
                return I.ev(g.iter, st.with_env(gen.env), k_it)
        hk = getattr(cx, "builtin_hook", None)
        if hk is not None:
            r = hk(I, name, args, kwargs, st, k)
            if r is not None:
                return r
        raise Unsupported("builtin %s%r" % (name, tuple(args)))

    def isinstance_(self, v, cls, st):
        cx = self.cx
        names = None
        if isinstance(cls, VFunc) and cls.kind == "class":
            names = [cls.name]
        elif isinstance(cls, VTuple):
            names = [c.name for c in cls.items if isinstance(c, VFunc) and c.kind == "class"]
            if len(names) != len(cls.items):
                names = None
        elif isinstance(cls, VExcClass):
            names = [cls.name]
        if names is None:
            raise Unsupported("isinstance against %r" % (cls,))

        def one(name):
            if isinstance(v, VSlice):
                return z3.BoolVal(name in ("slice", "object"))
            if isinstance(v, VBool):
                return z3.BoolVal(name in ("bool", "int", "object"))
            if isinstance(v, VInt):
                return z3.BoolVal(name in ("int", "object"))
            if isinstance(v, VNone):
                return z3.BoolVal(name == "object")
            if isinstance(v, VStr):
                return z3.BoolVal(name in ("str", "object"))
            if isinstance(v, VTuple):
                return z3.BoolVal(name in ("tuple", "object"))
            if isinstance(v, VIdx):
                if name == "slice":
                    return v.is_slice
                if name == "int":
                    return z3.Not(v.is_slice)
            if isinstance(v, VRef):
                h = st.heap[v.oid]
                chain = self.interp.mro(h.cls) if h.cls else [h.meta.get("pytype", h.kind)]
                return z3.BoolVal(name in chain or name == "object")
            if isinstance(v, VExc) and v.cname is not None:
                return z3.BoolVal(exc_isa(v.cname, name))
            if isinstance(v, (VElem, VConst)):
                return z3.Function("isinstance_" + name, Val, z3.BoolSort())(v.t)
            raise Unsupported("isinstance(%r, %s)" % (v, name))
        return z3.Or(*[one(n) for n in names]) if len(names) > 1 else one(names[0])

    def hasattr_(self, obj, name, st, k):
        if not (isinstance(name, VStr) and name.const is not None):
            raise Unsupported("hasattr with symbolic name")
        if isinstance(obj, VRef):
            h = st.heap[obj.oid]
            if name.const in h.fields:
                return k(VBool(True), st)
            if h.cls and self.interp.find_method(h.cls, name.const) is not None:
                return k(VBool(True), st)
            if h.kind in ("list", "dict", "set", "tuple") and not h.cls:
                return k(VBool(self.has_method(h.kind, name.const) or name.const in
                               {"dict": ("keys", "items", "values", "get")}.get(h.kind, ())), st)
            if h.cls and not h.meta.get("open_fields"):
                return k(VBool(False), st)
        if isinstance(obj, VFunc) and obj.kind in ("pairs", "iterable"):
            return k(VBool(name.const == "keys" and bool(getattr(obj, "is_mapping", False))), st)
        if isinstance(obj, VGen):
            return k(VBool(False), st)
        hk = getattr(self.cx, "hasattr_hook", None)
        if hk is not None:
            r = hk(self.interp, obj, name.const, st, k)
            if r is not None:
                return r
        raise Unsupported("hasattr(%r, %r)" % (obj, name.const))

    def binop(self, op, a, b, st, k):
        if isinstance(a, VRef) and isinstance(b, VRef):
            ha, hb = st.heap[a.oid], st.heap[b.oid]
            if isinstance(op, ast.Add) and ha.kind == hb.kind == "list":
                return self.new_list(z3.Concat(ha.payload, hb.payload), st, k)
            if ha.kind == hb.kind == "set":
                x = z3.Const("x!s", Val)
                A, B = ha.payload, hb.payload
                if isinstance(op, ast.Sub):
                    t = mk_lambda(x, z3.And(A[x], z3.Not(B[x])))
                elif isinstance(op, ast.BitAnd):
                    t = mk_lambda(x, z3.And(A[x], B[x]))
                elif isinstance(op, ast.BitOr):
                    t = mk_lambda(x, z3.Or(A[x], B[x]))
                elif isinstance(op, ast.BitXor):
                    t = mk_lambda(x, z3.Xor(A[x], B[x]))
                else:
                    raise Unsupported("set operator")
                r, st2 = self.alloc(st, HObj("set", t))
                return k(r, st2)
        raise Unsupported("binary %s on %r, %r" % (type(op).__name__, a, b))

    def inplace(self, op, a, b, st, k):
        h = st.heap[a.oid]
        name = {ast.Add: "__iadd__", ast.Mult: "__imul__", ast.BitOr: "__ior__", ast.BitAnd: "__iand__",
                ast.Sub: "__isub__", ast.BitXor: "__ixor__"}.get(type(op))
        if name is None:
            raise Unsupported("in-place operator")
        if h.cls:
            found = self.interp.find_method(h.cls, name)
            if found and found[0] == "repo":
                return self.interp.call(VFunc("bound", self_ref=a, cls=found[1], name=name, node=found[2]), [b], {}, st, k)
        return self.call_method(h.kind, name, a, [b], {}, st, k)

    # ------------------------------------------------------------------ constructors
    def construct(self, name, args, kwargs, st, k):
        cx = self.cx
        I = self.interp
        if name == "type":
            return self.call_builtin("type", args, kwargs, st, k)
        if name == "bool" and len(args) == 1:
            hk = getattr(cx, "bool_hook", None)
            if hk is not None:
                r = hk(I, args[0], st, k)
                if r is not None:
                    return r
            return k(VBool(truth(cx, args[0], st)), st)
        if name == "slice":
            vs = list(args)
            if len(vs) == 1:
                return k(self.mk_slice(NONE, vs[0], NONE), st)
            while len(vs) < 3:
                vs.append(NONE)
            return k(self.mk_slice(*vs), st)
        if name == "list":
            if not args:
                return self.new_list(EMPTY_SEQ, st, k, pyitems=())
            if isinstance(args[0], VRef) and st.heap[args[0].oid].meta.get("concrete_only"):
                return self.new_list_from_values(list(st.heap[args[0].oid].meta["pyitems"]), st, k)
            return self.consume(args[0], st, lambda s, st2: self.new_list(s, st2, k))
        if name == "tuple" and len(args) == 1 and isinstance(args[0], VGen):
            r = self.unfold_gen(args[0], st, lambda items, st2: k(VTuple(items), st2))
            if r is not None:
                return r
        if name == "tuple" and len(args) == 1:
            return self.consume(args[0], st, lambda sq, st2: self.new_list(sq, st2, k, kind="tuple"))
        if name == "dict":
            if not args and not kwargs:
                r, st2 = self.alloc(st, HObj("dict", EMPTY_MAP))
                return k(r, st2)
            if len(args) == 1 and not kwargs:
                r, st2 = self.alloc(st, HObj("dict", EMPTY_MAP))
                return self.m_dict_update(r, args, {}, st2, lambda _n, st3: k(r, st3))
        if name == "set":
            if not args:
                r, st2 = self.alloc(st, HObj("set", EMPTY_SET))
                return k(r, st2)
            r, st2 = self.alloc(st, HObj("set", EMPTY_SET))
            return self.m_set_update(r, args, {}, st2, lambda _n, st3: k(r, st3))
        if name in cx.classes:
            c = cx.contracts.get((name, "__new__"))
            hk = getattr(cx, "construct_hook", None)
            if hk is not None:
                r = hk(I, name, args, kwargs, st, k)
                if r is not None:
                    return r
            return self.construct_repo(name, args, kwargs, st, k)
        hk = getattr(cx, "construct_hook", None)
        if hk is not None:
            r = hk(I, name, args, kwargs, st, k)
            if r is not None:
                return r
        raise Unsupported("constructor %s" % name)

    def construct_repo(self, name, args, kwargs, st, k):
        """cls(*args): object allocation + __new__ (if the class chain defines one, inlined) + __init__."""
        I = self.interp
        chain = I.mro(name)
        base_kind = "obj"
        payload = None
        for c in chain:
            if c in ("list", "dict", "set"):
                base_kind = c
                payload = {"list": EMPTY_SEQ, "dict": EMPTY_MAP, "set": EMPTY_SET}[c]
        r, st2 = self.alloc(st, HObj(base_kind, payload, name))

        def after_new(st3):
            found = I.find_method(name, "__init__")
            if found is None or found[0] == "builtin" and found[1] == "object":
                if args or kwargs:
                    return raise_(st3, "TypeError")
                return k(r, st3)
            if found[0] == "builtin":
                return self.call_method(found[1], "__init__", r, args, kwargs, st3, lambda _n, st4: k(r, st4))
            return I.call(VFunc("bound", self_ref=r, cls=found[1], name="__init__", node=found[2]), args, kwargs, st3,
                          lambda _n, st4: k(r, st4))
        found_new = I.find_method(name, "__new__")
        if found_new is not None and found_new[0] == "repo":
            # cls.__new__(cls, *args, **kwargs) executed from its AST; `super().__new__(cls)` yields the fresh object
            node = found_new[2]
            if not (node.args.vararg and node.args.kwarg) and (args or kwargs):
                raise Unsupported("__new__ with a fixed signature")
            saved = st2.ghost.get("__new_obj__")
            st3 = st2.gset("__new_obj__", r)
            env0 = st3.env
            out = []
            saved_cls = self.cx.cur_class
            self.cx.cur_class = found_new[1]
            try:
                body = I.block(node.body, st3.with_env({node.args.args[0].arg: VFunc("class", name=name),
                                                        node.args.vararg.arg if node.args.vararg else "_a": VTuple(args)}
                                                       ).gset("__class__", found_new[1]))
            finally:
                self.cx.cur_class = saved_cls
            for (kind, payload, st4) in body:
                st5 = st4.with_env(env0).gset("__new_obj__", saved).gset("__class__", st.ghost.get("__class__"))
                if kind == "return":
                    if not (isinstance(payload, VRef) and payload.oid == r.oid):
                        raise Unsupported("__new__ returning another object")
                    out += after_new(st5)
                elif kind == "raise":
                    out.append((kind, payload, st5))
                else:
                    raise Unsupported("__new__ without return")
            return out
        return after_new(st2)

    # ------------------------------------------------------------------ method dispatch
    def call_method(self, base, name, self_ref, args, kwargs, st, k):
        mname = name.strip("_") if name.startswith("__") and name.endswith("__") else name
        m = getattr(self, "m_%s_%s" % (base, mname), None)
        if m is None:
            raise Unsupported("builtin method %s.%s" % (base, name))
        return m(self_ref, args, kwargs, st, k)

    # ---- str (message texts are opaque) ----
    def m_str_format(self, s_, args, kwargs, st, k):
        return k(VStr(), st)

    def _str_terms(self, s_, args):
        if s_.t is None or not args or not isinstance(args[0], VStr) or args[0].t is None:
            raise Unsupported("string method on an opaque string")
        return s_.t, args[0].t

    def m_str_startswith(self, s_, args, kwargs, st, k):
        a, b = self._str_terms(s_, args)
        return k(VBool(z3.PrefixOf(b, a)), st)

    def m_str_split(self, s_, args, kwargs, st, k):
        # s.split(sep) with a non-empty separator: only the first / last segment can be taken from the result
        if len(args) != 1 or not (isinstance(args[0], VStr) and args[0].const) or s_.t is None:
            raise Unsupported("str.split in this form")
        return k(VFunc("strsplit", s=s_.t, sep=args[0].t), st)

    def m_str_endswith(self, s_, args, kwargs, st, k):
        a, b = self._str_terms(s_, args)
        return k(VBool(z3.SuffixOf(b, a)), st)

    # ---- slice ----
    def m_slice_indices(self, sl, args, kwargs, st, k):
        n = _as_int(args[0])
        if n is None:
            raise Unsupported("slice.indices of non-int")
        a, b, c = slice_indices(self.cx, sl, n)
        return self.cx.branch(st, c == 0, lambda s0: raise_(s0, "ValueError", origin="slice-step-zero"),
                              lambda s1: k(VTuple([VInt(a), VInt(b), VInt(c)]), s1))

    # ---- list ----
    def _seq(self, ref, st):
        return st.heap[ref.oid].payload

    def m_list_init(self, ref, args, kwargs, st, k):
        if not args:
            return k(NONE, self.set_payload(ref, EMPTY_SEQ, st))
        it = args[0]
        if isinstance(it, VGen):
            return self.consume_partial(ref, EMPTY_SEQ, it, st, k)
        return self.consume(it, st, lambda s, st2: k(NONE, self.set_payload(ref, s, st2)))

    def consume_partial(self, ref, prefix, gen, st, k):
        """list.__init__/extend/__iadd__ fed by a generator: items produced before the failing one are kept."""
        I = self.interp
        cx = self.cx
        fake = ast.ListComp(elt=gen.node.elt, generators=gen.node.generators)
        ast.copy_location(fake, gen.node)
        out = []
        marker = object()
        for (kind, payload, st2) in self.comprehension(
                "list", fake, st.with_env(gen.env), lambda r, s2: [("ok", r, s2)]):
            st2 = st2.with_env(st.env)
            if kind == "ok":
                full = st2.heap[payload.oid].payload
                out += k(NONE, self.set_payload(ref, z3.Concat(prefix, full) if prefix is not EMPTY_SEQ else full, st2))
            elif kind == "raise":
                kk = st2.ghost.get("__fail_index__")
                if kk is None:
                    out.append((kind, payload, st2))
                    continue
                # the first kk mapped items were already appended: describe them pointwise
                part = cx.fresh("partial", SeqV)
                st3 = st2.assume(z3.Length(part) == kk).gset("__partial__", (ref.oid, part))
                st3 = self.set_payload(ref, z3.Concat(prefix, part), st3)
                out.append((kind, payload, st3))
            else:
                out.append((kind, payload, st2))
        return out

    def m_list_len(self, ref, args, kwargs, st, k):
        return k(VInt(z3.Length(self._seq(ref, st))), st)

    def m_list_copy(self, ref, args, kwargs, st, k):
        return self.new_list(self._seq(ref, st), st, k)

    def m_list_getitem(self, ref, args, kwargs, st, k):
        return self.list_getitem(ref, args[0], st, k)

    def m_list_append(self, ref, args, kwargs, st, k):
        s = self._seq(ref, st)
        h = st.heap[ref.oid]
        items = h.meta.get("pyitems")
        if s is None:
            if items is None:
                raise Unsupported("append to a list without a model")
            return k(NONE, st.put(ref.oid, HObj(h.kind, None, h.cls, h.fields, dict(h.meta, pyitems=tuple(items) + (args[0],)))))
        st2 = self.set_payload(ref, z3.Concat(s, z3.Unit(as_val(self.cx, args[0], st))), st)
        if items is not None:      # a list built from a display stays known item by item
            h2 = st2.heap[ref.oid]
            st2 = st2.put(ref.oid, HObj(h2.kind, h2.payload, h2.cls, h2.fields, dict(h2.meta, pyitems=tuple(items) + (args[0],))))
        return k(NONE, st2)

    def m_list_extend(self, ref, args, kwargs, st, k):
        s = self._seq(ref, st)
        if isinstance(args[0], VGen):
            return self.consume_partial(ref, s, args[0], st, k)
        return self.consume(args[0], st, lambda t, st2: k(NONE, self.set_payload(ref, z3.Concat(s, t), st2)))

    def m_list_iadd(self, ref, args, kwargs, st, k):
        return self.m_list_extend(ref, args, kwargs, st, lambda _n, st2: k(ref, st2))

    def m_list_imul(self, ref, args, kwargs, st, k):
        cx = self.cx
        s = self._seq(ref, st)
        m = _as_int(args[0])
        if m is None and isinstance(args[0], VElem) and getattr(self.cx, "non_index_objects", False):
            # an object without __index__ (float, Fraction, str ...): TypeError, list untouched
            return raise_(st, "TypeError", origin=("list-imul-non-index",))
        if m is None:
            raise Unsupported("list *= non-int")
        n = z3.Length(s)

        def small(st2):
            return k(ref, self.set_payload(ref, EMPTY_SEQ, st2))

        def one(st2):
            return k(ref, st2)

        def many(st2):
            r = z3.Function("repeat", SeqV, z3.IntSort(), SeqV)(s, m)
            q, rr = z3.Ints("q!r r!r")
            ax = z3.And(z3.Length(r) == n * m,
                        z3.Extract(r, 0, n) == s,
                        z3.ForAll([q, rr], z3.Implies(z3.And(0 <= q, q < m, 0 <= rr, rr < n), r[q * n + rr] == s[rr])))
            return k(ref, self.set_payload(ref, r, st2.assume(ax)))
        return cx.branch(st, m < 1, small, lambda s2: cx.branch(s2, m == 1, one, many))

    def m_list_clear(self, ref, args, kwargs, st, k):
        return k(NONE, self.set_payload(ref, EMPTY_SEQ, st))

    def m_list_insert(self, ref, args, kwargs, st, k):
        s = self._seq(ref, st)
        i = _as_int(args[0])
        if i is None:
            raise Unsupported("list.insert with non-int index")
        n = z3.Length(s)
        p = clamp_index(i, n)
        x = as_val(self.cx, args[1], st)
        return k(NONE, self.set_payload(ref, z3.Concat(z3.Extract(s, 0, p), z3.Unit(x), z3.Extract(s, p, n - p)), st))

    def m_list_pop(self, ref, args, kwargs, st, k):
        cx = self.cx
        s = self._seq(ref, st)
        n = z3.Length(s)
        i = _as_int(args[0]) if args else z3.IntVal(-1)
        if i is None:
            raise Unsupported("list.pop with non-int index")

        def ok(st2):
            p = ite(i < 0, i + n, i)
            new = z3.Concat(z3.Extract(s, 0, p), z3.Extract(s, p + 1, n - p - 1))
            return k(VElem(s[p]), self.set_payload(ref, new, st2))
        return cx.branch(st, z3.And(-n <= i, i < n), ok, lambda b: raise_(b, "IndexError"))

    def first_index(self, s, x, st):
        """fresh i with: i = -1 and x not in s, or i the first index of x (A-EQ)."""
        cx = self.cx
        key = ("first", s.sexpr(), x.sexpr())
        cache = cx.__dict__.setdefault("_first", {})
        if key in cache:
            return cache[key]
        i = cx.fresh_int("idx")
        j = z3.Int("j!f")
        n = z3.Length(s)
        cx.axioms.append(z3.Or(
            z3.And(i == -1, z3.Not(z3.Contains(s, z3.Unit(x))),
                   z3.ForAll([j], z3.Implies(z3.And(0 <= j, j < n), s[j] != x))),
            z3.And(0 <= i, i < n, s[i] == x, z3.Contains(s, z3.Unit(x)),
                   z3.ForAll([j], z3.Implies(z3.And(0 <= j, j < i), s[j] != x)))))
        cache[key] = i
        return i

    def m_list_index(self, ref, args, kwargs, st, k):
        if len(args) != 1:
            raise Unsupported("list.index with bounds")
        s = self._seq(ref, st)
        x = as_val(self.cx, args[0], st)
        i = self.first_index(s, x, st)
        return self.cx.branch(st, i >= 0, lambda a: k(VInt(i), a), lambda b: raise_(b, "ValueError"))

    def m_list_remove(self, ref, args, kwargs, st, k):
        s = self._seq(ref, st)
        n = z3.Length(s)
        x = as_val(self.cx, args[0], st)
        i = self.first_index(s, x, st)

        def ok(st2):
            new = z3.Concat(z3.Extract(s, 0, i), z3.Extract(s, i + 1, n - i - 1))
            return k(NONE, self.set_payload(ref, new, st2))
        return self.cx.branch(st, i >= 0, ok, lambda b: raise_(b, "ValueError"))

    def m_list_reverse(self, ref, args, kwargs, st, k):
        return k(NONE, self.set_payload(ref, self.rev(self._seq(ref, st)), st))

    def m_list_sort(self, ref, args, kwargs, st, k):
        """sort: some rearrangement of the same length (all that the functions under contract rely on).
        A `key` callable is an opaque callback that may raise before anything moves."""
        cx = self.cx
        s = self._seq(ref, st)
        keyf = kwargs.get("key", NONE)
        rv = kwargs.get("reverse", VBool(False))
        kt = as_val(cx, keyf, st)
        r = z3.Function("sorted", SeqV, Val, z3.BoolSort(), SeqV)(s, kt, truth(cx, rv, st))
        perm = z3.Function("is_permutation", SeqV, SeqV, z3.BoolSort())
        raises = z3.Function("sortkey_raises", SeqV, Val, z3.BoolSort())(s, kt)
        ok = z3.BoolVal(True) if isinstance(keyf, VNone) else z3.Not(raises)
        out = k(NONE, self.set_payload(ref, r, st.assume(ok, z3.Length(r) == z3.Length(s), perm(s, r))))
        if not isinstance(keyf, VNone):
            e = z3.Function("sortkey_exc", SeqV, Val, Exc)(s, kt)
            stE = st.assume(z3.Length(s) > 0, raises, *cx.exc_axioms(e))
            if cx.feasible(stE):
                out.append(("raise", VExc(sym=e, origin=("sort-key",)), stE))
        return out

    def m_list_setitem(self, ref, args, kwargs, st, k):
        cx = self.cx
        key, v = args
        s = self._seq(ref, st)
        n = z3.Length(s)
        if isinstance(key, (VInt, VBool)):
            i = _as_int(key)
            x = as_val(cx, v, st)

            def ok(st2):
                p = ite(i < 0, i + n, i)
                new = z3.Concat(z3.Extract(s, 0, p), z3.Unit(x), z3.Extract(s, p + 1, n - p - 1))
                return k(NONE, self.set_payload(ref, new, st2))
            return cx.branch(st, z3.And(-n <= i, i < n), ok, lambda b: raise_(b, "IndexError"))
        if isinstance(key, VSlice):
            a, b, c = slice_indices(cx, key, n)

            def nonzero(st1):
                def have(t, st2):
                    m = z3.Length(t)

                    def step1(st3):
                        hi = ite(b < a, a, b)
                        new = z3.Concat(z3.Extract(s, 0, a), t, z3.Extract(s, hi, n - hi))
                        return k(NONE, self.set_payload(ref, new, st3))

                    def stepx(st3):
                        cnt = self.range_count(a, b, c, st3)

                        def same(st4):
                            lo, stp = self.asc(a, c, cnt)
                            return cx.branch(
                                st4, c > 0,
                                lambda s5: k(NONE, self.set_payload(ref, self.ext_set(s, lo, stp, cnt, t), s5)),
                                lambda s6: k(NONE, self.set_payload(ref, self.ext_set(s, lo, stp, cnt, self.rev(t)), s6)))
                        return cx.branch(st3, m == cnt, same,
                                         lambda s5: raise_(s5, "ValueError", origin="extended-slice-size"))
                    # key.step None or 1 -> contiguous replacement ; otherwise extended-slice rule
                    is1 = z3.Or(key.step.is_none, key.step.t == 1)
                    return cx.branch(st2, is1, step1, stepx)
                return self.consume(v, st1, have)
            return cx.branch(st, c == 0, lambda s0: raise_(s0, "ValueError", origin="slice-step-zero"), nonzero)
        raise Unsupported("list.__setitem__ key %r" % (key,))

    def m_list_delitem(self, ref, args, kwargs, st, k):
        cx = self.cx
        (key,) = args
        s = self._seq(ref, st)
        n = z3.Length(s)
        if isinstance(key, (VInt, VBool)):
            i = _as_int(key)

            def ok(st2):
                p = ite(i < 0, i + n, i)
                new = z3.Concat(z3.Extract(s, 0, p), z3.Extract(s, p + 1, n - p - 1))
                return k(NONE, self.set_payload(ref, new, st2))
            return cx.branch(st, z3.And(-n <= i, i < n), ok, lambda b: raise_(b, "IndexError"))
        if isinstance(key, VSlice):
            a, b, c = slice_indices(cx, key, n)

            def nonzero(st1):
                def step1(st3):
                    hi = ite(b < a, a, b)
                    new = z3.Concat(z3.Extract(s, 0, a), z3.Extract(s, hi, n - hi))
                    return k(NONE, self.set_payload(ref, new, st3))

                def stepx(st3):
                    cnt = self.range_count(a, b, c, st3)
                    lo, stp = self.asc(a, c, cnt)
                    return k(NONE, self.set_payload(ref, self.ext_del(s, lo, stp, cnt), st3))
                return cx.branch(st1, c == 1, step1, stepx)
            return cx.branch(st, c == 0, lambda s0: raise_(s0, "ValueError", origin="slice-step-zero"), nonzero)
        raise Unsupported("list.__delitem__ key %r" % (key,))

    # ---- dict ----
    def _pairs_of(self, it, st):
        """(ks, vs, distinct) sequences of the (key, value) pairs an argument of dict.update yields."""
        if isinstance(it, VRef):
            h = st.heap[it.oid]
            if h.kind == "dict":
                ks, vs = self.dict_order(h.payload)
                return ks, vs
        if isinstance(it, VFunc) and it.kind == "pairs":
            return it.ks, it.vs
        return None

    DICT_FOLD = z3.Function("dict_fold", MapV, SeqV, SeqV, z3.IntSort(), MapV)

    def dict_fold(self, m, ks, vs, i):
        """The map obtained from m by executing d[ks[j]] = vs[j] for j = 0 .. i-1 in order (the meaning of
        dict.update / dict(pairs) on a sequence of pairs).  One unfolding step is provided per requested term."""
        t = self.DICT_FOLD(m, ks, vs, i)
        prev = self.DICT_FOLD(m, ks, vs, i - 1)
        self.cx.axioms.append(z3.And(
            z3.Implies(i == 0, t == m),
            z3.Implies(z3.And(i >= 1, i <= z3.Length(ks)), t == z3.Store(prev, ks[i - 1], Opt.some(vs[i - 1])))))
        return t

    @staticmethod
    def overlay(m, o):
        x = z3.Const("x!ov", Val)
        return mk_lambda(x, ite(o[x] != Opt.none, o[x], m[x]))

    def map_update(self, m, ks, vs):
        """fresh map = m updated with pairs in order (last writer wins), pointwise."""
        cx = self.cx
        r = cx.fresh("updated", MapV)
        j, j2 = z3.Ints("j!u j2!u")
        y = z3.Const("y!u", Val)
        n = z3.Length(ks)
        ax = z3.And(
            z3.ForAll([j], z3.Implies(
                z3.And(0 <= j, j < n, z3.ForAll([j2], z3.Implies(z3.And(j < j2, j2 < n), ks[j2] != ks[j]))),
                r[ks[j]] == Opt.some(vs[j]))),
            z3.ForAll([y], z3.Implies(z3.Not(z3.Contains(ks, z3.Unit(y))), r[y] == m[y])),
            z3.ForAll([y], z3.Implies(z3.Contains(ks, z3.Unit(y)), r[y] != Opt.none)))
        return r, ax

    def m_dict_init(self, ref, args, kwargs, st, k):
        st = self.set_payload(ref, EMPTY_MAP, st)
        if not args:
            return k(NONE, st)
        return self.m_dict_update(ref, args, kwargs, st, k)

    def m_dict_update(self, ref, args, kwargs, st, k):
        if kwargs or len(args) != 1:
            raise Unsupported("dict.update with keywords")
        m = st.heap[ref.oid].payload
        src = args[0]
        if isinstance(src, VRef) and st.heap[src.oid].kind == "dict":
            o = st.heap[src.oid].payload
            return k(NONE, self.set_payload(ref, self.overlay(m, o), st))
        if isinstance(src, VRef) and st.heap[src.oid].kind == "list" and "pyitems" in st.heap[src.oid].meta:
            new = m
            for it in st.heap[src.oid].meta["pyitems"]:
                kk, vv = self.interp.unpack(it, 2, st)
                new = z3.Store(new, as_val(self.cx, kk, st), Opt.some(as_val(self.cx, vv, st)))
            return k(NONE, self.set_payload(ref, new, st))
        pr = self._pairs_of(src, st)
        if pr is None:
            if isinstance(src, VGen):
                raise Unsupported("dict fed by a generator expression")
            raise Unsupported("dict.update from %r" % (src,))
        return k(NONE, self.set_payload(ref, self.dict_fold(m, pr[0], pr[1], z3.Length(pr[0])), st))

    def m_dict_ior(self, ref, args, kwargs, st, k):
        return self.m_dict_update(ref, args, kwargs, st, lambda _n, st2: k(ref, st2))

    def m_dict_setitem(self, ref, args, kwargs, st, k):
        m = st.heap[ref.oid].payload
        kk, vv = as_val(self.cx, args[0], st), as_val(self.cx, args[1], st)
        return k(NONE, self.set_payload(ref, z3.Store(m, kk, Opt.some(vv)), st))

    def m_dict_delitem(self, ref, args, kwargs, st, k):
        m = st.heap[ref.oid].payload
        kk = as_val(self.cx, args[0], st)
        return self.cx.branch(st, m[kk] != Opt.none,
                              lambda a: k(NONE, self.set_payload(ref, z3.Store(m, kk, Opt.none), a)),
                              lambda b: raise_(b, "KeyError"))

    def m_dict_getitem(self, ref, args, kwargs, st, k):
        return self.getitem(ref, args[0], st, k)

    def m_dict_get(self, ref, args, kwargs, st, k):
        m = st.heap[ref.oid].payload
        kk = as_val(self.cx, args[0], st)
        d = args[1] if len(args) > 1 else NONE
        return self.cx.branch(st, m[kk] != Opt.none, lambda a: k(VElem(Opt.get(m[kk])), a), lambda b: k(d, b))

    def m_dict_pop(self, ref, args, kwargs, st, k):
        m = st.heap[ref.oid].payload
        kk = as_val(self.cx, args[0], st)

        def missing(st2):
            if len(args) > 1:
                return k(args[1], st2)
            return raise_(st2, "KeyError")
        return self.cx.branch(st, m[kk] != Opt.none,
                              lambda a: k(VElem(Opt.get(m[kk])), self.set_payload(ref, z3.Store(m, kk, Opt.none), a)),
                              missing)

    def m_dict_popitem(self, ref, args, kwargs, st, k):
        cx = self.cx
        m = st.heap[ref.oid].payload

        def nonempty(st2):
            kk = z3.Function("popitem_key", MapV, Val)(m)
            st3 = st2.assume(m[kk] != Opt.none)
            return k(VTuple([VElem(kk), VElem(Opt.get(m[kk]))]), self.set_payload(ref, z3.Store(m, kk, Opt.none), st3))
        return cx.branch(st, m != EMPTY_MAP, nonempty, lambda b: raise_(b, "KeyError"))

    def m_dict_clear(self, ref, args, kwargs, st, k):
        return k(NONE, self.set_payload(ref, EMPTY_MAP, st))

    def m_dict_copy(self, ref, args, kwargs, st, k):
        r, st2 = self.alloc(st, HObj("dict", st.heap[ref.oid].payload))
        return k(r, st2)

    def m_dict_setdefault(self, ref, args, kwargs, st, k):
        m = st.heap[ref.oid].payload
        kk = as_val(self.cx, args[0], st)
        d = args[1] if len(args) > 1 else NONE
        return self.cx.branch(st, m[kk] != Opt.none, lambda a: k(VElem(Opt.get(m[kk])), a),
                              lambda b: k(d, self.set_payload(ref, z3.Store(m, kk, Opt.some(as_val(self.cx, d, b))), b)))

    def m_dict_items(self, ref, args, kwargs, st, k):
        ks, vs = self.dict_order(st.heap[ref.oid].payload)
        return k(VFunc("pairs", ks=ks, vs=vs, is_mapping=False, distinct=True), st)

    def m_dict_values(self, ref, args, kwargs, st, k):
        ks, vs = self.dict_order(st.heap[ref.oid].payload)
        return k(VFunc("iterable", seq=vs), st)

    def m_dict_keys(self, ref, args, kwargs, st, k):
        ks, vs = self.dict_order(st.heap[ref.oid].payload)
        return k(VFunc("iterable", seq=ks), st)

    def m_dict_contains(self, ref, args, kwargs, st, k):
        return self.contains(ref, args[0], st, k)

    # ---- set ----
    def _as_set_term(self, v, st):
        """SetV term with the members of an iterable argument (order irrelevant)."""
        if isinstance(v, VRef):
            h = st.heap[v.oid]
            if h.kind == "set":
                return h.payload
            if h.kind in ("list", "tuple") and "member_set" in h.meta:
                return h.meta["member_set"]
            if h.kind in ("list", "tuple") and h.payload is not None:
                x = z3.Const("x!t", Val)
                return mk_lambda(x, z3.Contains(h.payload, z3.Unit(x)))
            if h.kind == "dict":
                x = z3.Const("x!t", Val)
                return mk_lambda(x, h.payload[x] != Opt.none)
        if isinstance(v, VFunc) and v.kind == "iterable":
            x = z3.Const("x!t", Val)
            return mk_lambda(x, z3.Contains(v.seq, z3.Unit(x)))
        if isinstance(v, VFunc) and v.kind == "members":
            return v.set
        if isinstance(v, VTuple):
            s = EMPTY_SET
            for it in v.items:
                s = z3.Store(s, as_val(self.cx, it, st), z3.BoolVal(True))
            return s
        raise Unsupported("set view of %r" % (v,))

    def _set_binop(self, ref, args, st, f):
        A = st.heap[ref.oid].payload
        x = z3.Const("x!s", Val)
        for a in args:
            B = self._as_set_term(a, st)
            A = mk_lambda(x, f(A[x], B[x]))
        return A

    def m_set_init(self, ref, args, kwargs, st, k):
        st = self.set_payload(ref, EMPTY_SET, st)
        if not args:
            return k(NONE, st)
        return self.m_set_update(ref, args, kwargs, st, k)

    def m_set_add(self, ref, args, kwargs, st, k):
        s = st.heap[ref.oid].payload
        return k(NONE, self.set_payload(ref, z3.Store(s, as_val(self.cx, args[0], st), z3.BoolVal(True)), st))

    def m_set_discard(self, ref, args, kwargs, st, k):
        s = st.heap[ref.oid].payload
        return k(NONE, self.set_payload(ref, z3.Store(s, as_val(self.cx, args[0], st), z3.BoolVal(False)), st))

    def m_set_remove(self, ref, args, kwargs, st, k):
        s = st.heap[ref.oid].payload
        x = as_val(self.cx, args[0], st)
        return self.cx.branch(st, s[x], lambda a: k(NONE, self.set_payload(ref, z3.Store(s, x, z3.BoolVal(False)), a)),
                              lambda b: raise_(b, "KeyError"))

    def m_set_pop(self, ref, args, kwargs, st, k):
        cx = self.cx
        s = st.heap[ref.oid].payload

        def nonempty(st2):
            x = z3.Function("set_pop_elem", SetV, Val)(s)
            return k(VElem(x), self.set_payload(ref, z3.Store(s, x, z3.BoolVal(False)), st2.assume(s[x])))
        return cx.branch(st, s != EMPTY_SET, nonempty, lambda b: raise_(b, "KeyError"))

    def m_set_clear(self, ref, args, kwargs, st, k):
        return k(NONE, self.set_payload(ref, EMPTY_SET, st))

    def m_set_copy(self, ref, args, kwargs, st, k):
        r, st2 = self.alloc(st, HObj("set", st.heap[ref.oid].payload))
        return k(r, st2)

    def _set_new(self, ref, args, st, k, f):
        r, st2 = self.alloc(st, HObj("set", self._set_binop(ref, args, st, f)))
        return k(r, st2)

    def m_set_update(self, ref, args, kwargs, st, k):
        if len(args) == 1 and isinstance(args[0], VGen):
            gen = args[0]
            g = gen.node.generators[0]
            if len(gen.node.generators) != 1 or g.ifs:
                raise Unsupported("generator with conditions")
            A = st.heap[ref.oid].payload
            x = z3.Const("x!s", Val)
            out = []

            def k_it(it, st2):
                src = self._as_set_term(it, st2)
                res = []
                for (kind, payload, st3) in self.set_image(gen.node, g, src, st2, lambda r, s3: [("ok", r, s3)]):
                    st3 = st3.with_env(st.env)
                    if kind == "ok":
                        Rimg = st3.heap[payload.oid].payload
                        res += k(NONE, self.set_payload(ref, mk_lambda(x, z3.Or(A[x], Rimg[x])), st3))
                    elif kind == "raise":
                        # items produced before the failing one were already added: some subset, order unspecified
                        P = self.cx.fresh("partial", SetV)
                        res.append((kind, payload, self.set_payload(ref, mk_lambda(x, z3.Or(A[x], P[x])), st3)))
                    else:
                        res.append((kind, payload, st3))
                return res
            return self.interp.ev(g.iter, st.with_env(gen.env), k_it)
        return k(NONE, self.set_payload(ref, self._set_binop(ref, args, st, lambda a, b: z3.Or(a, b)), st))

    def m_set_difference_update(self, ref, args, kwargs, st, k):
        return k(NONE, self.set_payload(ref, self._set_binop(ref, args, st, lambda a, b: z3.And(a, z3.Not(b))), st))

    def m_set_intersection_update(self, ref, args, kwargs, st, k):
        return k(NONE, self.set_payload(ref, self._set_binop(ref, args, st, lambda a, b: z3.And(a, b)), st))

    def m_set_symmetric_difference_update(self, ref, args, kwargs, st, k):
        return k(NONE, self.set_payload(ref, self._set_binop(ref, args, st, lambda a, b: z3.Xor(a, b)), st))

    def m_set_ior(self, ref, args, kwargs, st, k):
        return self.m_set_update(ref, args, kwargs, st, lambda _n, s2: k(ref, s2))

    def m_set_iand(self, ref, args, kwargs, st, k):
        return self.m_set_intersection_update(ref, args, kwargs, st, lambda _n, s2: k(ref, s2))

    def m_set_isub(self, ref, args, kwargs, st, k):
        return self.m_set_difference_update(ref, args, kwargs, st, lambda _n, s2: k(ref, s2))

    def m_set_ixor(self, ref, args, kwargs, st, k):
        return self.m_set_symmetric_difference_update(ref, args, kwargs, st, lambda _n, s2: k(ref, s2))

    def m_set_difference(self, ref, args, kwargs, st, k):
        return self._set_new(ref, args, st, k, lambda a, b: z3.And(a, z3.Not(b)))

    def m_set_intersection(self, ref, args, kwargs, st, k):
        return self._set_new(ref, args, st, k, lambda a, b: z3.And(a, b))

    def m_set_union(self, ref, args, kwargs, st, k):
        return self._set_new(ref, args, st, k, lambda a, b: z3.Or(a, b))

    def m_set_symmetric_difference(self, ref, args, kwargs, st, k):
        return self._set_new(ref, args, st, k, lambda a, b: z3.Xor(a, b))

    def m_set_contains(self, ref, args, kwargs, st, k):
        return self.contains(ref, args[0], st, k)

    # ---- object.__dict__ view ----
    def m_objdict_copy(self, d, args, kwargs, st, k):
        h = st.heap[d.ref.oid]
        r, st2 = self.alloc(st, HObj("obj", None, None, dict(h.fields), {"is_state_dict": True}))
        return k(VFunc("objdict", ref=r), st2)

    def m_objdict_items(self, d, args, kwargs, st, k):
        # a dictionary with statically known string keys (keyword arguments, __dict__ views): its items in insertion order
        h = st.heap[d.ref.oid]
        return k(VTuple([VTuple([VStr(const=n), v]) for n, v in h.fields.items()]), st)

    def m_objdict_pop(self, d, args, kwargs, st, k):
        key = args[0]
        if not (isinstance(key, VStr) and key.const is not None):
            raise Unsupported("symbolic key into __dict__")
        h = st.heap[d.ref.oid]
        if key.const in h.fields:
            return k(h.fields[key.const], st.put(d.ref.oid, h.without_field(key.const)))
        if len(args) > 1:
            return k(args[1], st)
        return raise_(st, "KeyError")

    def m_objdict_update(self, d, args, kwargs, st, k):
        src = args[0]
        if isinstance(src, VFunc) and src.kind == "objdict":
            h = st.heap[d.ref.oid]
            f = dict(h.fields)
            f.update(st.heap[src.ref.oid].fields)
            return k(NONE, st.put(d.ref.oid, HObj(h.kind, h.payload, h.cls, f, h.meta)))
        raise Unsupported("__dict__.update from %r" % (src,))

    def m_objdict_setdefault(self, d, args, kwargs, st, k):
        key = args[0]
        if not (isinstance(key, VStr) and key.const is not None):
            raise Unsupported("symbolic key into __dict__")
        h = st.heap[d.ref.oid]
        if key.const in h.fields:
            return k(h.fields[key.const], st)
        v = args[1] if len(args) > 1 else NONE
        return k(v, st.put(d.ref.oid, h.with_field(key.const, v)))

    def m_objdict_get(self, d, args, kwargs, st, k):
        key = args[0]
        if not (isinstance(key, VStr) and key.const is not None):
            raise Unsupported("symbolic key into __dict__")
        h = st.heap[d.ref.oid]
        if key.const in h.fields:
            return k(h.fields[key.const], st)
        return k(args[1] if len(args) > 1 else NONE, st)
