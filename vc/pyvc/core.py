"""pyvc core: forward symbolic execution of the *real* AST of a /repo function.

The function text is re-read from /repo on every run (see source.py).  Nothing
here is specific to one repo function: repo-specific knowledge lives in the
sidecar contracts (/verif/contracts/py) and the builtin axioms (builtins_model).

Execution is path-by-path.  An outcome is (kind, payload, state) with kind in
  'next' | 'return' | 'raise' | 'break' | 'continue'.
Expression evaluation is written in continuation-passing style so that a
sub-expression can fork (short-circuit operators, calls with several outcomes)
or raise without the caller spelling it out.
"""
import ast
import itertools
import z3

from .values import *  # noqa: F401,F403
from . import values as _v

FEAS_TIMEOUT_MS = 1500


class St:
    """Immutable-by-convention symbolic state."""
    __slots__ = ("env", "heap", "pc", "ghost")

    def __init__(self, env=None, heap=None, pc=(), ghost=None):
        self.env = env or {}
        self.heap = heap or {}
        self.pc = tuple(pc)
        self.ghost = ghost or {}

    def set(self, name, v):
        e = dict(self.env)
        e[name] = v
        return St(e, self.heap, self.pc, self.ghost)

    def unset(self, name):
        e = dict(self.env)
        e.pop(name, None)
        return St(e, self.heap, self.pc, self.ghost)

    def assume(self, *cs):
        return St(self.env, self.heap, self.pc + tuple(cs), self.ghost)

    def put(self, oid, hobj):
        h = dict(self.heap)
        h[oid] = hobj
        return St(self.env, h, self.pc, self.ghost)

    def gset(self, k, v):
        g = dict(self.ghost)
        g[k] = v
        return St(self.env, self.heap, self.pc, g)

    def with_env(self, env):
        return St(env, self.heap, self.pc, self.ghost)


class HObj:
    """Heap object.  kind: 'list' | 'dict' | 'set' | 'obj' | 'tuple'.
    payload: z3 term of the builtin base (SeqV / MapV / SetV) or None.
    cls: repo class name (instances of repo classes, possibly subclassing a
    builtin container) or None.  fields: instance __dict__."""
    __slots__ = ("kind", "payload", "cls", "fields", "meta")

    def __init__(self, kind, payload=None, cls=None, fields=None, meta=None):
        self.kind, self.payload, self.cls = kind, payload, cls
        self.fields = fields or {}
        self.meta = meta or {}

    def with_payload(self, p):
        return HObj(self.kind, p, self.cls, self.fields, self.meta)

    def with_field(self, name, v):
        f = dict(self.fields)
        f[name] = v
        return HObj(self.kind, self.payload, self.cls, f, self.meta)

    def without_field(self, name):
        f = dict(self.fields)
        f.pop(name, None)
        return HObj(self.kind, self.payload, self.cls, f, self.meta)


class ClassInfo:
    def __init__(self, name, bases, methods, node, module):
        self.name, self.bases, self.methods, self.node, self.module = name, bases, methods, node, module


BUILTIN_CONTAINER_BASES = {"list": "list", "dict": "dict", "set": "set"}


class Cx:
    """Per-unit context: fresh names, class table, contracts, side axioms,
    hints, statistics."""

    def __init__(self, classes=None, contracts=None, module_globals=None):
        self.n = itertools.count()
        self.oid = itertools.count(1)
        self.classes = classes or {}
        self.contracts = contracts or {}
        self.module_globals = module_globals or {}
        self.axioms = []          # global hypotheses (builtin axioms instantiated on demand)
        self.hints = []           # sound arithmetic hints (theorems), listed in evidence
        self.elem_attrs = {}      # attr name -> handler(cx, VElem, st, k) for opaque objects
        self.consts = {}          # name -> VConst
        self.inline = set()       # (class, method) pairs executed from their AST at call sites
        self.feas_checks = 0
        self.unsupported = []
        self.notes = []
        self.cur_class = None     # class defining the function under execution (for super())
        self.feas_cache = {}
        self.callbacks = {}       # name -> effect description for opaque callables
        self.on_loop = None       # hook: (cx, node, ordinal, iterable, st, k_body, k_after) -> outcomes or None
        self.loop_ordinal = 0
        self.side_obligations = []   # (name, pc, goal) produced during execution (callee preconditions, asserts)

    # -- small theory helpers ------------------------------------------------
    self_name = "self"
    target = None            # (class, name) of the function under verification

    def cur_class_of(self, st):
        return st.ghost.get("__class__") or self.cur_class

    def is_target(self, cls, name):
        return self.target == (cls, name)

    def is_target_helper(self, cls, name):
        return False

    def val_eq(self, a, b):
        """A-EQ: `==` on opaque values is logical equality."""
        return a == b

    def box_int(self, t):
        f = z3.Function("box_int", z3.IntSort(), Val)
        g = z3.Function("unbox_int", Val, z3.IntSort())
        isb = z3.Function("is_boxed_int", Val, z3.BoolSort())
        self.axioms.append(z3.And(g(f(t)) == t, isb(f(t))))
        return f(t)

    def box_str(self, t):
        f = z3.Function("box_str", StrS, Val)
        g = z3.Function("unbox_str", Val, StrS)
        self.axioms.append(g(f(t)) == t)
        return f(t)

    def box_tuple(self, ts):
        n = len(ts)
        f = z3.Function("mk_tuple%d" % n, *([Val] * n + [Val]))
        r = f(*ts)
        for i, t in enumerate(ts):
            self.axioms.append(z3.Function("tuple%d_item%d" % (n, i), Val, Val)(r) == t)     # injectivity
        return r

    def resolve_ref(self, v, st):
        """An opaque element that the path condition identifies with a known heap object is that object."""
        if not isinstance(v, VElem):
            return v
        rv = getattr(self, "_ref_vals", {})
        for oid, tok in rv.items():
            if oid not in st.heap:
                continue
            s = z3.Solver()
            s.set("timeout", 1500)
            s.add(*self.axioms)
            s.add(*st.pc)
            s.add(v.t != tok)
            if s.check() == z3.unsat:
                return VRef(oid)
        return v

    def box_bool(self, t):
        f = z3.Function("box_bool", z3.BoolSort(), Val)
        g = z3.Function("unbox_bool", Val, z3.BoolSort())
        self.axioms.append(g(f(t)) == t)
        return f(t)

    def ref_val(self, r):
        rv = getattr(self, "_ref_vals", None)
        if rv is None:
            rv = self._ref_vals = {}
        if r.oid not in rv:
            t = z3.Const("ref_%d" % r.oid, Val)
            for o in rv.values():
                self.axioms.append(t != o)
            rv[r.oid] = t
        return rv[r.oid]

    def exc_isa_sym(self, sym, name):
        f = z3.Function("exc_isa_" + name, Exc, z3.BoolSort())
        return f(sym)

    def exc_axioms(self, sym):
        """Class-hierarchy facts for a symbolic exception instance."""
        out = [self.exc_isa_sym(sym, "BaseException")]
        for c, p in EXC_PARENT.items():
            if p is not None:
                out.append(z3.Implies(self.exc_isa_sym(sym, c), self.exc_isa_sym(sym, p)))
        names = list(EXC_PARENT)
        for i, a in enumerate(names):
            for b in names[i + 1:]:
                if not exc_isa(a, b) and not exc_isa(b, a) and EXC_PARENT[a] == EXC_PARENT[b]:
                    out.append(z3.Not(z3.And(self.exc_isa_sym(sym, a), self.exc_isa_sym(sym, b))))
        return out

    def divmod_term(self, f, a, b, st):
        """Python floor `//` / `%` of ints with b != 0 on this path."""
        if z3.is_int_value(b):
            return z3.simplify(f(a, b)), None
        key = (a.sexpr(), b.sexpr())
        cache = self.__dict__.setdefault("_dm", {})
        if key not in cache:
            q, r = self.fresh_int("q"), self.fresh_int("r")
            # division theorem: for b != 0 there is exactly one (q, r) with a = q*b + r and r between 0 and b
            fact = z3.And(a == q * b + r, z3.Or(z3.And(0 <= r, r < b), z3.And(b < r, r <= 0)))
            self.hints.append("division-witness for (%s) // (%s)" % key)
            cache[key] = (q, r, z3.Implies(b != 0, fact))
        q, r, fact = cache[key]
        return (q if f is pyfloordiv else r), fact

    def map_fn(self, term, var):
        """Function symbol SeqV -> SeqV for `[term(var) for var in S]`, shared by all sites mapping the
        same element expression (so that two mapped sequences over the same source are the same term)."""
        canon = z3.Const("x!canon", Val)
        key = z3.substitute(term, (var, canon)).sexpr()
        fns = self.__dict__.setdefault("_mapfns", {})
        if key not in fns:
            fns[key] = z3.Function("map!%d" % len(fns), SeqV, SeqV)
        return fns[key]

    def image_fn(self, term, var):
        """Function symbol SetV -> SetV for `{term(var) for var in S}` (shared by all sites with the same element)."""
        canon = z3.Const("x!canon", Val)
        key = z3.substitute(term, (var, canon)).sexpr()
        fns = self.__dict__.setdefault("_imgfns", {})
        if key not in fns:
            fns[key] = z3.Function("image!%d" % len(fns), SetV, SetV)
        return fns[key]

    def fresh(self, prefix, sort):
        return z3.Const("%s!%d" % (prefix, next(self.n)), sort)

    def fresh_int(self, prefix="i"):
        return self.fresh(prefix, z3.IntSort())

    def new_oid(self):
        return next(self.oid)

    def const(self, name):
        if name not in self.consts:
            self.consts[name] = VConst(name, z3.Const("const_" + name, Val))
        return self.consts[name]

    def distinct_consts_axiom(self):
        # named singletons (None, Undefined, ...) and the identity tokens of heap objects are pairwise different objects
        ts = [c.t for c in self.consts.values()] + list(getattr(self, "_ref_vals", {}).values())
        return [z3.Distinct(*ts)] if len(ts) > 1 else []

    # -- feasibility --------------------------------------------------------
    def feasible(self, st, cond=None):
        cs = list(st.pc) + ([cond] if cond is not None else [])
        s = z3.Solver()
        s.set("timeout", FEAS_TIMEOUT_MS)
        s.add(*self.axioms)
        s.add(*self.distinct_consts_axiom())
        s.add(*_v.DEFS)
        s.add(*cs)
        self.feas_checks += 1
        return s.check() != z3.unsat

    def branch(self, st, cond, kt, kf):
        """Fork on z3 Bool `cond`."""
        c = z3.simplify(cond)
        if z3.is_true(c):
            return kt(st)
        if z3.is_false(c):
            return kf(st)
        out = []
        if self.feasible(st, c):
            out += kt(st.assume(c))
        nc = z3.simplify(z3.Not(c))
        if self.feasible(st, nc):
            out += kf(st.assume(nc))
        return out


def raise_(st, cname, origin=None, args=()):
    return [("raise", VExc(cname=cname, origin=origin, args=args), st)]


# ---------------------------------------------------------------------------
# truthiness, equality, identity
# ---------------------------------------------------------------------------

def truth(cx, v, st):
    """z3 Bool for Python truthiness of v."""
    if isinstance(v, VBool):
        return v.t
    if isinstance(v, VInt):
        return v.t != 0
    if isinstance(v, VNone):
        return z3.BoolVal(False)
    if isinstance(v, VStr):
        if v.const is not None:
            return z3.BoolVal(bool(v.const))
        if v.t is not None:
            return z3.Length(v.t) > 0
        raise Unsupported("truth of opaque string")
    if isinstance(v, VTuple):
        return z3.BoolVal(len(v.items) > 0)
    if isinstance(v, VRef):
        h = st.heap[v.oid]
        if h.kind in ("list", "tuple"):
            return z3.Length(h.payload) > 0
        if h.kind == "dict":
            return h.payload != EMPTY_MAP
        if h.kind == "set":
            return h.payload != EMPTY_SET
        if h.kind == "obj":
            return z3.BoolVal(True)
    if isinstance(v, (VFunc, VExcClass, VSlice, VModule)):
        return z3.BoolVal(True)
    if isinstance(v, VConst):
        t = cx.const_truth.get(v.name) if hasattr(cx, "const_truth") else None
        if t is not None:
            return z3.BoolVal(t)
    if isinstance(v, VElem):
        f = getattr(cx, "elem_truth", None)
        if f is not None:
            return f(v.t)
    raise Unsupported("truth of %r" % (v,))


def as_val(cx, v, st):
    """Val term for a value stored into a container of opaque items."""
    if isinstance(v, (VElem, VConst)):
        return v.t
    if isinstance(v, VNone):
        return cx.const("None").t
    if isinstance(v, VInt):
        return cx.box_int(v.t)
    if isinstance(v, VBool):
        return cx.box_bool(v.t)
    if isinstance(v, VRef):
        return cx.ref_val(v)
    if isinstance(v, VFunc) and getattr(v, "val", None) is not None:
        return v.val
    if isinstance(v, VFunc) and v.kind in ("lambda", "bound", "repo", "opaque", "builtin"):
        toks = cx.__dict__.setdefault("_func_vals", {})
        if id(v) not in toks:
            toks[id(v)] = (v, z3.Const("callable!%d" % len(toks), Val))
        return toks[id(v)][1]
    if isinstance(v, VStr) and v.t is not None:
        return cx.box_str(v.t)
    if isinstance(v, VTuple):
        return cx.box_tuple([as_val(cx, x, st) for x in v.items])
    raise Unsupported("cannot store %r in a container of opaque items" % (v,))


def identical(cx, a, b, st):
    """z3 Bool for `a is b`."""
    if isinstance(a, VNone) and isinstance(b, VNone):
        return z3.BoolVal(True)
    if isinstance(a, VRef) and isinstance(b, VRef):
        return z3.BoolVal(a.oid == b.oid)
    if isinstance(a, (VElem, VConst, VNone)) and isinstance(b, (VElem, VConst, VNone)):
        return as_val(cx, a, st) == as_val(cx, b, st)
    if isinstance(a, VOptInt) and isinstance(b, VNone):
        return a.is_none
    if isinstance(b, VOptInt) and isinstance(a, VNone):
        return b.is_none
    if isinstance(a, VNone) or isinstance(b, VNone):
        other = b if isinstance(a, VNone) else a
        if isinstance(other, (VInt, VBool, VStr, VTuple, VRef, VFunc, VSlice, VIdx)):
            return z3.BoolVal(False)
    if isinstance(a, VRef) and isinstance(b, (VElem, VConst)) or isinstance(b, VRef) and isinstance(a, (VElem, VConst)):
        r, e = (a, b) if isinstance(a, VRef) else (b, a)
        return cx.ref_val(r) == e.t
    if isinstance(a, VFunc) and isinstance(b, VFunc):
        if a.kind == b.kind == "bound":
            return z3.BoolVal(False)   # each attribute access creates a new bound method object
    if isinstance(a, VBool) and isinstance(b, VBool):
        return a.t == b.t
    if isinstance(a, VExcClass) or isinstance(b, VExcClass):
        # a class object is identical only to itself; an opaque value handed in by the caller is not a class named here
        return z3.BoolVal(isinstance(a, VExcClass) and isinstance(b, VExcClass) and a.name == b.name)
    raise Unsupported("identity of %r and %r" % (a, b))


def equal(cx, a, b, st):
    """z3 Bool for `a == b` (A-EQ: lawful equality on opaque items)."""
    if isinstance(a, (VInt, VBool)) and isinstance(b, (VInt, VBool)):
        ta = a.t if isinstance(a, VInt) else z3.If(a.t, 1, 0)
        tb = b.t if isinstance(b, VInt) else z3.If(b.t, 1, 0)
        return ta == tb
    if isinstance(a, VOptInt) and isinstance(b, VInt):
        return z3.And(z3.Not(a.is_none), a.t == b.t)
    if isinstance(b, VOptInt) and isinstance(a, VInt):
        return z3.And(z3.Not(b.is_none), a.t == b.t)
    if isinstance(a, VNone) or isinstance(b, VNone):
        return identical(cx, a, b, st)
    if isinstance(a, VStr) and isinstance(b, VStr):
        if a.t is not None and b.t is not None:
            return a.t == b.t
    if isinstance(a, VRef) and isinstance(b, VRef):
        ha, hb = st.heap[a.oid], st.heap[b.oid]
        if ha.kind == hb.kind and ha.kind in ("list", "dict", "set", "tuple"):
            return ha.payload == hb.payload
        if ha.kind == "obj" and hb.kind == "obj":
            return z3.BoolVal(a.oid == b.oid)
    if isinstance(a, (VElem, VConst)) and isinstance(b, (VElem, VConst)):
        return cx.val_eq(a.t, b.t)
    if isinstance(a, VTuple) and isinstance(b, VTuple):
        if len(a.items) != len(b.items):
            return z3.BoolVal(False)
        return z3.And(*[equal(cx, x, y, st) for x, y in zip(a.items, b.items)]) if a.items else z3.BoolVal(True)
    raise Unsupported("equality of %r and %r" % (a, b))


def pyfloordiv(a, b):
    q, r = a / b, a % b            # z3: a == b*q + r with 0 <= r < |b| (Euclidean)
    return z3.If(b > 0, q, z3.If(r == 0, q, q - 1))     # floor: for b < 0 and r != 0 the Euclidean quotient is one too large


def pymod(a, b):
    r = a % b
    return z3.If(b > 0, r, z3.If(r == 0, r, r + b))


# ---------------------------------------------------------------------------
# the interpreter
# ---------------------------------------------------------------------------

class Interp:
    def __init__(self, cx, builtins):
        self.cx = cx
        self.bi = builtins      # builtins_model.Builtins(self)
        builtins.interp = self

    def require(self, st, cond, name):
        """Call-site precondition: becomes an obligation under the current path condition, then is assumed."""
        self.cx.side_obligations.append((name, list(st.pc), cond))
        return st.assume(cond)

    # -- blocks and statements ------------------------------------------------
    def block(self, stmts, st):
        """-> list of outcomes; 'next' means fell off the end."""
        states = [st]
        out = []
        for s in stmts:
            nxt = []
            for cur in states:
                for (kind, payload, s2) in self.stmt(s, cur):
                    if kind == "next":
                        nxt.append(s2)
                    else:
                        out.append((kind, payload, s2))
            states = nxt
            if not states:
                break
        out += [("next", None, s) for s in states]
        return out

    def stmt(self, s, st):
        m = getattr(self, "s_" + type(s).__name__, None)
        if m is None:
            raise Unsupported("statement %s at line %s" % (type(s).__name__, getattr(s, "lineno", "?")))
        return m(s, st)

    def s_Pass(self, s, st):
        return [("next", None, st)]

    def s_Expr(self, s, st):
        if isinstance(s.value, ast.Constant):
            return [("next", None, st)]      # docstring / bare constant
        if isinstance(s.value, (ast.Yield, ast.YieldFrom)):
            # a generator body run to exhaustion by its consumer: what is yielded is recorded, in order, in ghost state
            # ("item", v) for `yield v`, ("from", it) for `yield from it` (the iterable is not unfolded); the value sent back
            # is not used (statement position only)
            tag = "from" if isinstance(s.value, ast.YieldFrom) else "item"
            if s.value.value is None:
                return [("next", None, st.gset("yielded", tuple(st.ghost.get("yielded", ())) + ((tag, NONE),)))]
            return self.ev(s.value.value, st, lambda v, st2: [("next", None, st2.gset("yielded", tuple(st2.ghost.get("yielded", ())) + ((tag, v),)))])
        return self.ev(s.value, st, lambda v, st2: [("next", None, st2)])

    def s_Assign(self, s, st):
        def k(v, st2):
            return self.assign_all(s.targets, 0, v, st2)
        return self.ev(s.value, st, k)

    def assign_all(self, targets, i, v, st):
        if i == len(targets):
            return [("next", None, st)]
        return self.assign(targets[i], v, st, lambda st2: self.assign_all(targets, i + 1, v, st2))

    def assign(self, tgt, v, st, k):
        if isinstance(tgt, ast.Name):
            return k(st.set(tgt.id, v))
        if isinstance(tgt, (ast.Tuple, ast.List)):
            items = self.unpack(v, len(tgt.elts), st)
            if items is None:
                raise Unsupported("unpacking %r" % (v,))

            def go(i, st2):
                if i == len(tgt.elts):
                    return k(st2)
                return self.assign(tgt.elts[i], items[i], st2, lambda st3: go(i + 1, st3))
            return go(0, st)
        if isinstance(tgt, ast.Attribute):
            def k1(obj, st2):
                return self.setattr(obj, tgt.attr, v, st2, k)
            return self.ev(tgt.value, st, k1)
        if isinstance(tgt, ast.Subscript):
            def k1(obj, st2):
                def k2(key, st3):
                    return self.bi.setitem(obj, key, v, st3, lambda _r, st4: k(st4))
                return self.ev_index(tgt.slice, st2, k2)
            return self.ev(tgt.value, st, k1)
        raise Unsupported("assignment target %s" % type(tgt).__name__)

    def unpack(self, v, n, st):
        if isinstance(v, VTuple):
            if len(v.items) != n:
                raise Unsupported("tuple arity mismatch")
            return list(v.items)
        if isinstance(v, VRef):
            h = st.heap[v.oid]
            if h.kind in ("list", "tuple") and "pyitems" in h.meta and len(h.meta["pyitems"]) == n:
                return list(h.meta["pyitems"])
        u = getattr(self.cx, "unpack_hook", None)
        if u is not None:
            return u(self.cx, v, n, st)
        return None

    def s_AugAssign(self, s, st):
        load = ast.copy_location(_to_load(s.target), s.target)

        def k1(cur, st2):
            def k2(rhs, st3):
                return self.binop_inplace(s.op, cur, rhs, st3,
                                          lambda r, st4: self.assign(s.target, r, st4, lambda st5: [("next", None, st5)]))
            return self.ev(s.value, st2, k2)
        return self.ev(load, st, k1)

    def s_If(self, s, st):
        def k(c, st2):
            return self.cx.branch(st2, truth(self.cx, c, st2),
                                  lambda a: self.block(s.body, a),
                                  lambda b: self.block(s.orelse, b))
        return self.ev(s.test, st, k)

    def s_Return(self, s, st):
        if s.value is None:
            return [("return", NONE, st)]
        return self.ev(s.value, st, lambda v, st2: [("return", v, st2)])

    def s_Raise(self, s, st):
        if s.exc is None:
            cur = st.ghost.get("__cur_exc__")
            if cur is None:
                raise Unsupported("bare raise outside handler")
            return [("raise", cur, st)]

        def k(v, st2):
            if isinstance(v, VExc):
                return [("raise", v, st2)]
            if isinstance(v, VExcClass):
                return [("raise", VExc(cname=v.name), st2)]
            raise Unsupported("raise of %r" % (v,))
        return self.ev(s.exc, st, k)

    def s_Assert(self, s, st):
        def k(c, st2):
            return self.cx.branch(st2, truth(self.cx, c, st2),
                                  lambda a: [("next", None, a)],
                                  lambda b: raise_(b, "AssertionError"))
        return self.ev(s.test, st, k)

    def s_Delete(self, s, st):
        def go(i, st2):
            if i == len(s.targets):
                return [("next", None, st2)]
            t = s.targets[i]
            if isinstance(t, ast.Name):
                return go(i + 1, st2.unset(t.id))
            if isinstance(t, ast.Subscript):
                def k1(obj, st3):
                    def k2(key, st4):
                        return self.bi.delitem(obj, key, st4, lambda _r, st5: go(i + 1, st5))
                    return self.ev_index(t.slice, st3, k2)
                return self.ev(t.value, st2, k1)
            if isinstance(t, ast.Attribute):
                def k1(obj, st3):
                    return self.delattr(obj, t.attr, st3, lambda st4: go(i + 1, st4))
                return self.ev(t.value, st2, k1)
            raise Unsupported("del target")
        return go(0, st)

    def s_Try(self, s, st):
        out = []
        for (kind, payload, st2) in self.block(s.body, st):
            if kind == "raise":
                out += self.handle(s, payload, st2)
            elif kind == "next":
                out += self.block(s.orelse, st2) if s.orelse else [("next", None, st2)]
            else:
                out.append((kind, payload, st2))
        if not s.finalbody:
            return out
        fin = []
        for (kind, payload, st2) in out:
            for (k2, p2, st3) in self.block(s.finalbody, st2):
                if k2 == "next":
                    fin.append((kind, payload, st3))
                else:
                    fin.append((k2, p2, st3))
        return fin

    def handle(self, s, exc, st):
        """Match exception `exc` against the handlers of Try `s`."""
        def go(i, st2):
            if i == len(s.handlers):
                return [("raise", exc, st2)]
            h = s.handlers[i]
            if h.type is None:
                return run(h, st2)
            names = self.handler_names(h.type, st2)
            cond = self.exc_matches(exc, names)
            return self.cx.branch(st2, cond, lambda a: run(h, a), lambda b: go(i + 1, b))

        def run(h, st2):
            saved = st2.ghost.get("__cur_exc__")
            st3 = st2.gset("__cur_exc__", exc)
            if h.name:
                st3 = st3.set(h.name, exc)
            res = []
            for (kind, payload, st4) in self.block(h.body, st3):
                st5 = st4.gset("__cur_exc__", saved)
                if h.name:
                    st5 = st5.unset(h.name)
                res.append((kind, payload, st5))
            return res
        return go(0, st)

    def handler_names(self, node, st):
        if isinstance(node, ast.Tuple):
            return [n for e in node.elts for n in self.handler_names(e, st)]
        if isinstance(node, ast.Name):
            return [node.id]
        if isinstance(node, ast.Attribute):
            return [node.attr]
        raise Unsupported("except clause type")

    def exc_matches(self, exc, names):
        if exc.cname is not None:
            return z3.BoolVal(any(exc_isa(exc.cname, n) for n in names))
        return z3.Or(*[self.cx.exc_isa_sym(exc.sym, n) for n in names])

    def loop_ordinal_of(self, s):
        """ordinal of a loop statement: its position among the loops of the function in source order (static)"""
        ids = self.cx.__dict__.setdefault("loop_ids", {})
        if id(s) not in ids:
            ids[id(s)] = len(ids)
        return ids[id(s)]

    def s_For(self, s, st):
        ordinal = self.loop_ordinal_of(s)

        def k(it, st2):
            return self.for_loop(s, ordinal, it, st2)
        return self.ev(s.iter, st, k)

    def for_loop(self, s, ordinal, it, st):
        it = self.cx.resolve_ref(it, st)
        items = self.concrete_items(it, st)
        if items is not None:
            return self.unrolled(s, items, 0, st)
        if self.cx.on_loop is not None:
            r = self.cx.on_loop(self, s, ordinal, it, st)
            if r is not None:
                return r
        raise Unsupported("for loop over symbolic iterable without invariant (loop %d, line %d)" % (ordinal, s.lineno))

    def concrete_items(self, it, st):
        if isinstance(it, VTuple):
            return list(it.items)
        if isinstance(it, VRef):
            h = st.heap[it.oid]
            if "pyitems" in h.meta:
                return list(h.meta["pyitems"])
        return None

    def unrolled(self, s, items, i, st):
        if i == len(items):
            return self.block(s.orelse, st) if s.orelse else [("next", None, st)]

        def body(st2):
            out = []
            for (kind, payload, st3) in self.block(s.body, st2):
                if kind in ("next", "continue"):
                    out += self.unrolled(s, items, i + 1, st3)
                elif kind == "break":
                    out.append(("next", None, st3))
                else:
                    out.append((kind, payload, st3))
            return out
        return self.assign(s.target, items[i], st, body)

    def s_While(self, s, st):
        ordinal = self.loop_ordinal_of(s)
        if self.cx.on_loop is not None:
            r = self.cx.on_loop(self, s, ordinal, None, st)
            if r is not None:
                return r
        raise Unsupported("while loop without invariant (loop %d, line %d)" % (ordinal, s.lineno))

    def s_Break(self, s, st):
        return [("break", None, st)]

    def s_Continue(self, s, st):
        return [("continue", None, st)]

    def s_FunctionDef(self, s, st):
        f = VFunc("lambda", node=s, env=st.env, name=s.name, cls=self.cx.cur_class)
        return [("next", None, st.set(s.name, f))]

    def s_Import(self, s, st):
        for a in s.names:
            st = st.set(a.asname or a.name.split(".")[0], VModule(a.name))
        return [("next", None, st)]

    def s_ImportFrom(self, s, st):
        for a in s.names:
            st = st.set(a.asname or a.name, self.global_name(a.name, st))
        return [("next", None, st)]

    # -- expressions ----------------------------------------------------------
    def ev(self, e, st, k):
        m = getattr(self, "e_" + type(e).__name__, None)
        if m is None:
            raise Unsupported("expression %s at line %s" % (type(e).__name__, getattr(e, "lineno", "?")))
        return m(e, st, k)

    def ev_list(self, es, st, k, acc=()):
        if not es:
            return k(list(acc), st)
        return self.ev(es[0], st, lambda v, st2: self.ev_list(es[1:], st2, k, acc + (v,)))

    def ev_index(self, node, st, k):
        if isinstance(node, ast.Slice):
            def part(n, st2, kk):
                if n is None:
                    return kk(NONE, st2)
                return self.ev(n, st2, kk)
            return part(node.lower, st, lambda lo, s1: part(node.upper, s1, lambda up, s2: part(
                node.step, s2, lambda sp, s3: k(self.bi.mk_slice(lo, up, sp), s3))))
        return self.ev(node, st, k)

    def e_Constant(self, e, st, k):
        c = e.value
        if c is None:
            return k(NONE, st)
        if isinstance(c, bool):
            return k(VBool(c), st)
        if isinstance(c, int):
            return k(VInt(c), st)
        if isinstance(c, str):
            return k(VStr(const=c), st)
        if c is Ellipsis:
            return k(self.cx.const("Ellipsis"), st)
        raise Unsupported("constant %r" % (c,))

    def e_JoinedStr(self, e, st, k):
        return k(VStr(), st)       # opaque message text

    def e_Name(self, e, st, k):
        if e.id in st.env:
            return k(st.env[e.id], st)
        return k(self.global_name(e.id, st), st)

    def global_name(self, name, st):
        g = self.cx.module_globals
        if name in g:
            return g[name]
        if name in self.cx.classes:
            return VFunc("class", name=name)
        if name in EXC_PARENT:
            return VExcClass(name)
        if name in self.bi.FUNCS:
            return VFunc("builtin", name=name)
        if name in ("list", "dict", "set", "tuple", "int", "str", "float", "bool", "object", "slice", "type", "frozenset", "bytes", "complex"):
            return VFunc("class", name=name)
        raise Unsupported("unknown global name %r" % name)

    def e_Tuple(self, e, st, k):
        if any(isinstance(x, ast.Starred) for x in e.elts):
            raise Unsupported("starred tuple")
        return self.ev_list(e.elts, st, lambda vs, st2: k(VTuple(vs), st2))

    def e_List(self, e, st, k):
        return self.ev_list(e.elts, st, lambda vs, st2: self.bi.new_list_from_values(vs, st2, k))

    def e_Dict(self, e, st, k):
        if any(x is None for x in e.keys):
            raise Unsupported("dict unpacking display")
        return self.ev_list(e.keys, st, lambda ks, st2: self.ev_list(
            e.values, st2, lambda vs, st3: self.bi.new_dict_from_pairs(list(zip(ks, vs)), st3, k)))

    def e_Set(self, e, st, k):
        return self.ev_list(e.elts, st, lambda vs, st2: self.bi.new_set_from_values(vs, st2, k))

    def e_UnaryOp(self, e, st, k):
        def k1(v, st2):
            if isinstance(e.op, ast.Not):
                return k(VBool(z3.Not(truth(self.cx, v, st2))), st2)
            if isinstance(e.op, ast.USub) and isinstance(v, VInt):
                return k(VInt(-v.t), st2)
            if isinstance(e.op, ast.UAdd) and isinstance(v, VInt):
                return k(v, st2)
            raise Unsupported("unary op on %r" % (v,))
        return self.ev(e.operand, st, k1)

    def e_BoolOp(self, e, st, k):
        is_and = isinstance(e.op, ast.And)

        def go(i, st2):
            def k1(v, st3):
                if i == len(e.values) - 1:
                    return k(v, st3)
                c = truth(self.cx, v, st3)
                if is_and:
                    return self.cx.branch(st3, c, lambda a: go(i + 1, a), lambda b: k(v, b))
                return self.cx.branch(st3, c, lambda a: k(v, a), lambda b: go(i + 1, b))
            return self.ev(e.values[i], st2, k1)
        return go(0, st)

    def e_IfExp(self, e, st, k):
        def k1(c, st2):
            return self.cx.branch(st2, truth(self.cx, c, st2),
                                  lambda a: self.ev(e.body, a, k), lambda b: self.ev(e.orelse, b, k))
        return self.ev(e.test, st, k1)

    def e_Compare(self, e, st, k):
        def go(i, left, st2):
            def k1(right, st3):
                def k2(r, st4):
                    if i == len(e.ops) - 1:
                        return k(r, st4)
                    return self.cx.branch(st4, truth(self.cx, r, st4),
                                          lambda a: go(i + 1, right, a), lambda b: k(VBool(False), b))
                return self.compare(e.ops[i], left, right, st3, k2)
            return self.ev(e.comparators[i], st2, k1)
        return self.ev(e.left, st, lambda l, st2: go(0, l, st2))

    def compare(self, op, a, b, st, k):
        cx = self.cx
        h0 = getattr(cx, "eq_hook", None)
        if h0 is not None and isinstance(op, (ast.Eq, ast.NotEq)):
            r = h0(self, op, a, b, st, k)
            if r is not None:
                return r
        if isinstance(op, ast.Is):
            return k(VBool(identical(cx, a, b, st)), st)
        if isinstance(op, ast.IsNot):
            return k(VBool(z3.Not(identical(cx, a, b, st))), st)
        if isinstance(op, ast.Eq):
            return k(VBool(equal(cx, a, b, st)), st)
        if isinstance(op, ast.NotEq):
            return k(VBool(z3.Not(equal(cx, a, b, st))), st)
        if isinstance(op, ast.In):
            return self.bi.contains(b, a, st, k)
        if isinstance(op, ast.NotIn):
            return self.bi.contains(b, a, st, lambda r, st2: k(VBool(z3.Not(r.t)), st2))
        ia, ib = _as_int(a), _as_int(b)
        if ia is not None and ib is not None:
            t = {ast.Lt: ia < ib, ast.LtE: ia <= ib, ast.Gt: ia > ib, ast.GtE: ia >= ib}[type(op)]
            return k(VBool(t), st)
        h = getattr(cx, "compare_hook", None)
        if h is not None:
            r = h(self, op, a, b, st, k)
            if r is not None:
                return r
        raise Unsupported("comparison %s of %r, %r" % (type(op).__name__, a, b))

    def e_BinOp(self, e, st, k):
        return self.ev(e.left, st, lambda a, s1: self.ev(e.right, s1, lambda b, s2: self.binop(e.op, a, b, s2, k)))

    def binop(self, op, a, b, st, k):
        if isinstance(a, VIdx) or isinstance(b, VIdx):
            # an index that may be an int or a slice: arithmetic on the slice alternative is a TypeError
            x = a if isinstance(a, VIdx) else b
            as_int_val = lambda v: VInt(v.i) if v is x else v
            return self.cx.branch(st, x.is_slice, lambda s1: raise_(s1, "TypeError", origin=("slice-arithmetic",)),
                                  lambda s2: self.binop(op, as_int_val(a), as_int_val(b), s2, k))
        ia, ib = _as_int(a), _as_int(b)
        if ia is not None and ib is not None:
            if isinstance(op, ast.Add):
                return k(VInt(ia + ib), st)
            if isinstance(op, ast.Sub):
                return k(VInt(ia - ib), st)
            if isinstance(op, ast.Mult):
                return k(VInt(ia * ib), st)
            if isinstance(op, (ast.FloorDiv, ast.Mod)):
                f = pyfloordiv if isinstance(op, ast.FloorDiv) else pymod
                def nz(s2):
                    t, fact = self.cx.divmod_term(f, ia, ib, s2)
                    return k(VInt(t), s2.assume(fact) if fact is not None else s2)
                return self.cx.branch(st, ib == 0, lambda s1: raise_(s1, "ZeroDivisionError"), nz)
        if isinstance(a, VStr) and isinstance(op, ast.Mod):
            r = self.format_percent_s(a, b)
            return k(r if r is not None else VStr(), st)       # other message formatting: opaque text
        if isinstance(a, VStr) and isinstance(b, VStr) and isinstance(op, ast.Add):
            if a.t is not None and b.t is not None:
                c = a.const + b.const if a.const is not None and b.const is not None else None
                return k(VStr(z3.Concat(a.t, b.t), const=c) if c is None else VStr(const=c), st)
            return k(VStr(), st)
        return self.bi.binop(op, a, b, st, k)

    def format_percent_s(self, fmt, arg):
        """'lit%slit%s' % (a, b) with string arguments: the concatenation (exact); anything else: None"""
        if fmt.const is None:
            return None
        args = list(arg.items) if isinstance(arg, VTuple) else [arg]
        parts = fmt.const.split("%s")
        if len(parts) != len(args) + 1 or "%" in "".join(parts) or not all(isinstance(x, VStr) and x.t is not None for x in args):
            return None
        terms = []
        for i, ptxt in enumerate(parts):
            if ptxt:
                terms.append(z3.StringVal(ptxt))
            if i < len(args):
                terms.append(args[i].t)
        if not terms:
            return VStr(const="")
        return VStr(z3.Concat(*terms) if len(terms) > 1 else terms[0])

    def binop_inplace(self, op, a, b, st, k):
        if isinstance(a, VRef):
            return self.bi.inplace(op, a, b, st, k)
        return self.binop(op, a, b, st, k)

    def e_Attribute(self, e, st, k):
        return self.ev(e.value, st, lambda obj, st2: self.getattr(obj, e.attr, st2, k))

    def e_Subscript(self, e, st, k):
        return self.ev(e.value, st, lambda obj, s1: self.ev_index(
            e.slice, s1, lambda key, s2: self.bi.getitem(obj, key, s2, k)))

    def e_Lambda(self, e, st, k):
        return k(VFunc("lambda", node=e, env=st.env, name="<lambda>", cls=self.cx.cur_class), st)

    def e_ListComp(self, e, st, k):
        return self.bi.comprehension("list", e, st, k)

    def e_SetComp(self, e, st, k):
        return self.bi.comprehension("set", e, st, k)

    def e_DictComp(self, e, st, k):
        return self.bi.comprehension("dict", e, st, k)

    def e_GeneratorExp(self, e, st, k):
        return k(VGen(e, st.env), st)

    def ev_args(self, nodes, st, k, acc=()):
        """positional arguments, `*tuple` spliced when the tuple is a Python-level tuple"""
        if not nodes:
            return k(list(acc), st)
        n = nodes[0]
        if isinstance(n, ast.Starred):
            def ks(v, st2):
                if not isinstance(v, VTuple):
                    raise Unsupported("star-argument that is not a Python-level tuple")
                return self.ev_args(nodes[1:], st2, k, acc + tuple(v.items))
            return self.ev(n.value, st, ks)
        return self.ev(n, st, lambda v, st2: self.ev_args(nodes[1:], st2, k, acc + (v,)))

    def ev_keywords(self, keywords, st, k, acc=None):
        acc = dict(acc or {})
        if not keywords:
            return k(acc, st)
        kw = keywords[0]

        def k1(v, st2):
            if kw.arg is None:
                if isinstance(v, VFunc) and v.kind == "objdict":
                    acc.update(st2.heap[v.ref.oid].fields)
                    return self.ev_keywords(keywords[1:], st2, k, acc)
                raise Unsupported("** of a non-literal mapping at line %d" % kw.value.lineno)
            acc[kw.arg] = v
            return self.ev_keywords(keywords[1:], st2, k, acc)
        return self.ev(kw.value, st, k1)

    def e_Call(self, e, st, k):
        # super().m(...)
        f = e.func
        if (isinstance(f, ast.Attribute) and isinstance(f.value, ast.Call) and isinstance(f.value.func, ast.Name)
                and f.value.func.id == "super" and not f.value.args):
            def ksup(args, st2):
                return self.ev_keywords(e.keywords, st2, lambda kw, st3: self.call_super(f.attr, args, kw, st3, k))
            return self.ev_args(e.args, st, ksup)

        def k1(fv, st2):
            return self.ev_args(e.args, st2, lambda args, st3: self.ev_keywords(
                e.keywords, st3, lambda kw, st4: self.call(fv, args, kw, st4, k)))
        return self.ev(f, st, k1)

    # -- attribute access -----------------------------------------------------
    def getattr(self, obj, name, st, k):
        cx = self.cx
        if isinstance(obj, VElem) and getattr(cx, "_ref_vals", None) and name not in cx.elem_attrs:
            obj = cx.resolve_ref(obj, st)
        if isinstance(obj, VRef):
            h = st.heap[obj.oid]
            if name in h.fields:
                return k(h.fields[name], st)
            if name == "__dict__" and h.kind == "obj" or name == "__dict__" and h.cls:
                return k(VFunc("objdict", ref=obj), st)
            if h.cls:
                found = self.find_method(h.cls, name)
                if found is not None:
                    kind, owner, node = found
                    if kind == "repo":
                        return k(VFunc("bound", self_ref=obj, cls=owner, name=name, node=node), st)
                    return k(VFunc("bmeth", self_ref=obj, base=owner, name=name), st)
                for c_ in self.mro(h.cls):
                    if (c_, name) in cx.contracts:      # a method inherited from the compiled base class, given by contract
                        return k(VFunc("bound", self_ref=obj, cls=c_, name=name, node=None), st)
                if h.meta.get("open_fields"):
                    hk = h.meta["open_fields"](cx, obj, name, st)
                    if hk is not None:
                        return k(hk, st)
                return raise_(st, "AttributeError", origin=("missing-attribute", h.cls, name))
            if h.kind in ("list", "dict", "set", "tuple"):
                if self.bi.has_method(h.kind, name) or name in ("keys", "values", "items", "get", "__len__", "count"):
                    return k(VFunc("bmeth", self_ref=obj, base=h.kind, name=name), st)
                if h.meta.get("opaque_iterable"):
                    # an arbitrary iterable handed in by the caller may carry any attribute with any value
                    has = z3.Function("has_attr_" + name, Val, z3.BoolSort())(cx.ref_val(obj))
                    val = z3.Function("attr_" + name, Val, Val)(cx.ref_val(obj))
                    return cx.branch(st, has, lambda a: k(VElem(val), a),
                                     lambda b: raise_(b, "AttributeError", origin=("missing-attribute", h.kind, name)))
                return raise_(st, "AttributeError", origin=("missing-attribute", h.kind, name))
        if isinstance(obj, VSlice) and name in ("start", "stop", "step"):
            return k(getattr(obj, name), st)
        if isinstance(obj, VSlice) and name == "indices":
            return k(VFunc("bmeth", self_ref=obj, base="slice", name=name), st)
        if isinstance(obj, VModule):
            return k(self.bi.module_attr(obj.name, name), st)
        if isinstance(obj, (VElem, VConst)):
            h = cx.elem_attrs.get(name)
            if h is not None:
                return h(self, obj, st, k)
            raise Unsupported("attribute %r of opaque object %r" % (name, obj))
        if isinstance(obj, VExc):
            if name in obj.fields:
                return k(obj.fields[name], st)
            h = cx.elem_attrs.get("exc." + name)
            if h is not None:
                return h(self, obj, st, k)
        if isinstance(obj, VFunc) and obj.kind == "objdict":
            return k(VFunc("bmeth", self_ref=obj, base="objdict", name=name), st)
        if isinstance(obj, VStr):
            return k(VFunc("bmeth", self_ref=obj, base="str", name=name), st)
        if isinstance(obj, VFunc) and obj.kind == "class":
            if obj.name in ("list", "dict", "set") and self.bi.has_method(obj.name, name):
                return k(VFunc("unbound", base=obj.name, name=name), st)      # list.extend(self, ...)
            if obj.name in cx.classes:
                found = self.find_method(obj.name, name)
                if found is not None and found[0] == "repo":
                    return k(VFunc("unbound_repo", cls=found[1], name=name, node=found[2]), st)
        if isinstance(obj, VFunc) and obj.kind == "repo" and getattr(obj, "module", None) == "itertools" \
                and obj.name == "chain" and name == "from_iterable":
            return k(VFunc("builtin", name="chain.from_iterable"), st)
        h = getattr(cx, "getattr_hook", None)
        if h is not None:
            r = h(self, obj, name, st, k)
            if r is not None:
                return r
        raise Unsupported("attribute %r of %r" % (name, obj))

    def setattr(self, obj, name, v, st, k):
        if isinstance(obj, VRef):
            h = st.heap[obj.oid]
            if h.cls or h.kind == "obj":
                return k(st.put(obj.oid, h.with_field(name, v)))
        if isinstance(obj, VExc):
            obj.fields[name] = v
            return k(st)
        hk = getattr(self.cx, "setattr_hook", None)
        if hk is not None:
            r = hk(self, obj, name, v, st, k)
            if r is not None:
                return r
        raise Unsupported("setattr %r on %r" % (name, obj))

    def delattr(self, obj, name, st, k):
        if isinstance(obj, VRef):
            h = st.heap[obj.oid]
            if name in h.fields:
                return k(st.put(obj.oid, h.without_field(name)))
            return raise_(st, "AttributeError", origin=("missing-attribute", h.cls, name))
        raise Unsupported("delattr on %r" % (obj,))

    def mro(self, cls):
        """Linearisation for single inheritance chains (all the repo classes under contract)."""
        out = []
        c = cls
        while c is not None:
            out.append(c)
            ci = self.cx.classes.get(c)
            if ci is None:
                break
            if len(ci.bases) > 1:
                raise Unsupported("multiple inheritance in %s" % c)
            c = ci.bases[0] if ci.bases else None
        return out

    def find_method(self, cls, name, after=None):
        chain = self.mro(cls)
        if after is not None:
            chain = chain[chain.index(after) + 1:]
        for c in chain:
            ci = self.cx.classes.get(c)
            if ci is not None:
                if name in ci.methods:
                    return ("repo", c, ci.methods[name])
            elif c in BUILTIN_CONTAINER_BASES:
                if self.bi.has_method(c, name):
                    return ("builtin", c, None)
            elif c == "object":
                if name in ("__init__", "__new__", "__reduce_ex__", "__getstate__"):
                    return ("builtin", "object", None)
        return None

    # -- calls ------------------------------------------------------------------
    def call_super(self, name, args, kwargs, st, k):
        if name == "__new__" and st.ghost.get("__new_obj__") is not None:
            return k(st.ghost["__new_obj__"], st)
        selfv = st.env.get(self.cx.self_name or "self")
        if not isinstance(selfv, VRef):
            raise Unsupported("super() without a heap self")
        found = self.find_method(st.heap[selfv.oid].cls, name, after=self.cx.cur_class_of(st))
        if found is None:
            return raise_(st, "AttributeError", origin=("missing-super-attribute", name))
        kind, owner, node = found
        if kind == "repo":
            return self.call(VFunc("bound", self_ref=selfv, cls=owner, name=name, node=node), args, kwargs, st, k)
        return self.call(VFunc("bmeth", self_ref=selfv, base=owner, name=name), args, kwargs, st, k)

    def call(self, fv, args, kwargs, st, k):
        cx = self.cx
        if isinstance(fv, VFunc):
            if fv.kind == "builtin":
                return self.bi.call_builtin(fv.name, args, kwargs, st, k)
            if fv.kind == "bmeth":
                return self.bi.call_method(fv.base, fv.name, fv.self_ref, args, kwargs, st, k)
            if fv.kind == "class":
                return self.bi.construct(fv.name, args, kwargs, st, k)
            if fv.kind == "bound":
                c = cx.contracts.get((fv.cls, fv.name))
                if (fv.cls, fv.name) in cx.inline:
                    return self.inline_call(fv.node, fv.cls, [fv.self_ref] + list(args), kwargs, st, k, {})
                if c is not None and not cx.is_target(fv.cls, fv.name):
                    try:
                        return c.summary(self, fv.self_ref, args, kwargs, st, k)
                    except Unsupported as e:
                        # a sibling method that is under contract as a unit of its own but offers no call-site summary is
                        # executed from its real AST instead (still the real code, just not modular)
                        if "no call-site summary" not in str(e) or fv.node is None:
                            raise
                        cx.notes.append("inlined %s.%s at a call site (its contract has no summary)" % (fv.cls, fv.name))
                        return self.inline_call(fv.node, fv.cls, [fv.self_ref] + list(args), kwargs, st, k, {})
                if fv.node is not None and not cx.is_target(fv.cls, fv.name) and getattr(cx, "inline_depth", 0) < 4:
                    # a helper method without a contract of its own (extracted by a refactoring, say) is executed from its
                    # real AST at the call site -- still the real code, not modular; recorded in the unit's notes
                    cx.notes.append("inlined helper %s.%s (no contract)" % (fv.cls, fv.name))
                    cx.inline_depth = getattr(cx, "inline_depth", 0) + 1
                    try:
                        return self.inline_call(fv.node, fv.cls, [fv.self_ref] + list(args), kwargs, st, k, {})
                    finally:
                        cx.inline_depth -= 1
                raise Unsupported("call of %s.%s: no contract and not inlinable" % (fv.cls, fv.name))
            if fv.kind == "lambda":
                return self.inline_call(fv.node, fv.cls, list(args), kwargs, st, k, fv.env)
            if fv.kind == "unbound" and args and isinstance(args[0], VRef):
                return self.bi.call_method(fv.base, fv.name, args[0], list(args[1:]), kwargs, st, k)
            if fv.kind == "unbound_repo" and args and isinstance(args[0], VRef):
                return self.call(VFunc("bound", self_ref=args[0], cls=fv.cls, name=fv.name, node=fv.node),
                                 list(args[1:]), kwargs, st, k)
            if fv.kind == "opaque":
                return fv.apply(self, args, kwargs, st, k)
            if fv.kind == "repo":
                c = cx.contracts.get((None, fv.name))
                node = getattr(fv, "node", None)
                if (None, fv.name) in cx.inline and node is not None:
                    return self.inline_call(node, None, list(args), kwargs, st, k, {})
                h = getattr(cx, "repo_call_hook", None)
                if h is not None:
                    r = h(self, fv, args, kwargs, st, k)
                    if r is not None:
                        return r
                if c is not None and not cx.is_target(None, fv.name):
                    return c.summary(self, None, args, kwargs, st, k)
                raise Unsupported("call of repo function %s without contract" % fv.name)
        if isinstance(fv, VExcClass):
            return k(VExc(cname=fv.name, args=tuple(args)), st)
        h = getattr(cx, "call_hook", None)
        if h is not None:
            r = h(self, fv, args, kwargs, st, k)
            if r is not None:
                return r
        raise Unsupported("call of %r" % (fv,))

    def bind_params(self, node, args, kwargs, st, k_bound):
        """Evaluate defaults and bind parameters of FunctionDef/Lambda `node`; -> env dict via k_bound(env, st)."""
        a = node.args
        pos = [p.arg for p in a.posonlyargs + a.args]
        env = {}
        if a.kwarg:
            known = set(pos) | {p.arg for p in a.kwonlyargs}
            extra = {n: v for n, v in kwargs.items() if n not in known}
            kwargs = {n: v for n, v in kwargs.items() if n in known}
            oid = self.cx.new_oid()
            st = st.put(oid, HObj("obj", None, None, dict(extra), {"is_state_dict": True}))
            env[a.kwarg.arg] = VFunc("objdict", ref=VRef(oid))
        if a.vararg:
            env[a.vararg.arg] = VTuple(args[len(pos):])
            args = args[:len(pos)]
        if len(args) > len(pos):
            return raise_(st, "TypeError", origin="too-many-arguments")
        for n, v in zip(pos, args):
            env[n] = v
        for n, v in kwargs.items():
            if n in env or (n not in pos and n not in [p.arg for p in a.kwonlyargs]):
                return raise_(st, "TypeError", origin="bad-keyword")
            env[n] = v
        need = []
        defaults = dict(zip(pos[len(pos) - len(a.defaults):], a.defaults))
        for p, d in zip(a.kwonlyargs, a.kw_defaults):
            if d is not None:
                defaults[p.arg] = d
        for n in pos + [p.arg for p in a.kwonlyargs]:
            if n not in env:
                if n not in defaults:
                    return raise_(st, "TypeError", origin="missing-argument")
                need.append((n, defaults[n]))

        def go(i, st2):
            if i == len(need):
                return k_bound(env, st2)

            def kk(v, st3):
                env[need[i][0]] = v
                return go(i + 1, st3)
            return self.ev(need[i][1], st2.with_env({}), lambda v, st3: kk(v, st3.with_env(st2.env)))
        return go(0, st)

    def inline_call(self, node, cls, args, kwargs, st, k, closure_env):
        caller_env = st.env
        saved_cls = self.cx.cur_class
        saved_ord = self.cx.loop_ordinal

        def run(env, st2):
            e = dict(closure_env)
            e.update(env)
            self.cx.cur_class = cls
            try:
                if isinstance(node, ast.Lambda):
                    res = self.ev(node.body, st2.with_env(e), lambda v, st3: [("return", v, st3)])
                else:
                    res = self.block(node.body, st2.with_env(e).gset("__class__", cls))
            finally:
                self.cx.cur_class = saved_cls
            out = []
            for (kind, payload, st3) in res:
                st4 = st3.with_env(caller_env).gset("__class__", st.ghost.get("__class__"))
                if kind == "return":
                    out += k(payload, st4)
                elif kind == "next":
                    out += k(NONE, st4)
                elif kind == "raise":
                    out.append((kind, payload, st4))
                else:
                    raise Unsupported("break/continue escaping a function")
            return out
        return self.bind_params(node, args, kwargs, st, run)


def _as_int(v):
    if isinstance(v, VInt):
        return v.t
    if isinstance(v, VBool):
        return z3.If(v.t, 1, 0)
    return None


def _to_load(t):
    import copy
    n = copy.deepcopy(t)
    for x in ast.walk(n):
        if hasattr(x, "ctx"):
            x.ctx = ast.Load()
    return n
