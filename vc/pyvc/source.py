"""Mechanical extraction of the functions under contract from /repo.

Nothing is copied into /verif: on every run the file is read from the working
tree, parsed with `ast`, and the FunctionDef located by qualified name.
Dropped by extraction, exactly: docstrings, comments, type annotations and the
decorators on the allow-list below (DESIGN 2.1).
"""
import ast
import hashlib
import os

from .core import ClassInfo
from .values import Unsupported

REPO = os.environ.get("VERIF_REPO", "/repo")

DECORATOR_ALLOW = {"staticmethod", "classmethod", "property", "IObservable.register", "IObserver.register",
                   "lru_cache", "weak_arg", "contextlib.contextmanager", "abc.abstractmethod"}

_cache = {}


def load_module(relpath):
    path = os.path.join(REPO, relpath)
    if not os.path.exists(path) and REPO != "/repo":
        path = os.path.join("/repo", relpath)      # partial overlay trees (selftest mutants)
    key = (path, os.stat(path).st_mtime_ns)
    if key not in _cache:
        src = open(path, encoding="utf-8").read()
        _cache[key] = (src, ast.parse(src, filename=path))
    return _cache[key]


def _walk_defs(body, prefix, out_funcs, out_classes, module):
    for n in body:
        if isinstance(n, (ast.FunctionDef, ast.AsyncFunctionDef)):
            q = prefix + n.name
            out_funcs[q] = n
            _walk_defs(n.body, q + ".<locals>.", out_funcs, out_classes, module)
        elif isinstance(n, ast.ClassDef):
            q = prefix + n.name
            methods = {}
            _collect_methods(n.body, methods)
            bases = []
            for b in n.bases:
                bases.append(b.id if isinstance(b, ast.Name) else (b.attr if isinstance(b, ast.Attribute) else "?"))
            out_classes[q] = ClassInfo(q, bases or ["object"], methods, n, module)
            for mname, m in methods.items():
                out_funcs[q + "." + mname] = m
                _walk_defs(m.body, q + "." + mname + ".<locals>.", out_funcs, out_classes, module)
        elif isinstance(n, (ast.If, ast.Try, ast.With)):
            for blk in (getattr(n, "body", []), getattr(n, "orelse", []), getattr(n, "finalbody", [])):
                _walk_defs(blk, prefix, out_funcs, out_classes, module)


def _collect_methods(body, methods):
    for n in body:
        if isinstance(n, (ast.FunctionDef, ast.AsyncFunctionDef)):
            methods[n.name] = n
        elif isinstance(n, ast.If):      # e.g. `if sys.version_info >= (3, 9): def __ior__ ...`
            _collect_methods(n.body, methods)
            _collect_methods(n.orelse, methods)


def index_module(relpath):
    src, tree = load_module(relpath)
    funcs, classes = {}, {}
    _walk_defs(tree.body, "", funcs, classes, relpath)
    return src, tree, funcs, classes


def decorator_names(fn):
    out = []
    for d in fn.decorator_list:
        t = d.func if isinstance(d, ast.Call) else d
        out.append(ast.unparse(t))
    return out


def get_function(relpath, qualname):
    """-> (FunctionDef, source segment, sha256, owning class name or None)."""
    src, tree, funcs, classes = index_module(relpath)
    if qualname not in funcs:
        raise Unsupported("function %s not found in %s" % (qualname, relpath))
    fn = funcs[qualname]
    for d in decorator_names(fn):
        if d not in DECORATOR_ALLOW and d.split(".")[-1] not in DECORATOR_ALLOW:
            raise Unsupported("decorator %s on %s is not on the allow-list" % (d, qualname))
    seg = ast.get_source_segment(src, fn) or ""
    owner = None
    parts = qualname.split(".")
    if len(parts) >= 2 and ".".join(parts[:-1]) in classes:
        owner = ".".join(parts[:-1])
    return fn, seg, hashlib.sha256(seg.encode()).hexdigest(), owner


def class_table(relpaths):
    table = {}
    for rp in relpaths:
        table.update(index_module(rp)[3])
    return table


def module_constants(relpath):
    """Module-level simple assignments NAME = <literal> read from the AST (data the proofs use)."""
    src, tree = load_module(relpath)
    out = {}
    for n in tree.body:
        if isinstance(n, ast.Assign) and len(n.targets) == 1 and isinstance(n.targets[0], ast.Name):
            try:
                out[n.targets[0].id] = ast.literal_eval(n.value)
            except Exception:
                pass
    return out
