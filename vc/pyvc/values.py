"""Symbolic value domain of the Python VC generator (pyvc).

Every Python value met while symbolically executing a function of /repo is one
of the wrappers below.  Primitive payloads are z3 terms; container payloads
live in the heap (see core.St) so that aliasing and mutation are explicit.
"""
import z3

Val = z3.DeclareSort("Val")          # any opaque Python object (items, keys, callables, owners)
SeqV = z3.SeqSort(Val)               # list / tuple contents
Opt = z3.Datatype("Opt")
Opt.declare("none")
Opt.declare("some", ("get", Val))
Opt = Opt.create()
MapV = z3.ArraySort(Val, Opt)        # dict contents: key -> none | some(value)
SetV = z3.ArraySort(Val, z3.BoolSort())   # set contents
Exc = z3.DeclareSort("Exc")          # symbolic exception instance raised by opaque code
StrS = z3.StringSort()

EMPTY_MAP = z3.K(Val, Opt.none)
EMPTY_SET = z3.K(Val, z3.BoolVal(False))
EMPTY_SEQ = z3.Empty(SeqV)


class Unsupported(Exception):
    """The function left the supported subset: its obligations are UNDECIDED."""


class V:
    pass


class VInt(V):
    def __init__(self, t):
        self.t = z3.IntVal(t) if isinstance(t, int) else t

    def __repr__(self):
        return "VInt(%s)" % self.t


class VBool(V):
    def __init__(self, t):
        self.t = z3.BoolVal(t) if isinstance(t, bool) else t

    def __repr__(self):
        return "VBool(%s)" % self.t


class VNone(V):
    def __repr__(self):
        return "VNone"


NONE = VNone()


class VOptInt(V):
    """None or an int (slice attributes)."""

    def __init__(self, is_none, t):
        self.is_none, self.t = is_none, t


class VStr(V):
    """A string.  `t` is a z3 String term, or None for an opaque message text."""

    def __init__(self, t=None, const=None):
        if const is not None and t is None:
            t = z3.StringVal(const)
        self.t, self.const = t, const

    def __repr__(self):
        return "VStr(%r)" % (self.const if self.const is not None else self.t,)


class VElem(V):
    """An opaque Python object, element of sort Val."""

    def __init__(self, t):
        self.t = t

    def __repr__(self):
        return "VElem(%s)" % self.t


class VTuple(V):
    def __init__(self, items):
        self.items = tuple(items)

    def __repr__(self):
        return "VTuple%r" % (self.items,)


class VSlice(V):
    """slice(start, stop, step); every component a VOptInt."""

    def __init__(self, start, stop, step):
        self.start, self.stop, self.step = start, stop, step


class VIdx(V):
    """int-or-slice with a symbolic tag (result of index normalisation).
    slice components are plain ints (never None)."""

    def __init__(self, is_slice, i, a, b, c):
        self.is_slice, self.i, self.a, self.b, self.c = is_slice, i, a, b, c


class VRef(V):
    """Reference to a heap object (list, dict, set or instance of a repo class)."""

    def __init__(self, oid):
        self.oid = oid

    def __repr__(self):
        return "VRef(%s)" % self.oid


class VFunc(V):
    """A callable.  kind:
       'opaque'  user callback with an effect class (see contracts)
       'bound'   method `name` of heap object `self_ref`, class from the AST
       'lambda'  ast.Lambda / nested FunctionDef + closure env
       'builtin' python builtin / stdlib function handled by the engine
       'class'   a class object (repo or builtin) used as a constructor
       'bmeth'   method of a builtin container value
    """

    def __init__(self, kind, **kw):
        self.kind = kind
        self.__dict__.update(kw)

    def __repr__(self):
        return "VFunc(%s,%s)" % (self.kind, {k: v for k, v in self.__dict__.items() if k != "kind"})


class VExcClass(V):
    def __init__(self, name):
        self.name = name


class VExc(V):
    """Exception instance.  cname: concrete class name, or None when the class is
    symbolic (`sym` is then a z3 Exc term).  origin: free-form tag the contracts
    use to say *which* callback produced it."""

    def __init__(self, cname=None, sym=None, origin=None, args=()):
        self.cname, self.sym, self.origin, self.args = cname, sym, origin, args
        self.fields = {}

    def __repr__(self):
        return "VExc(%s,%s,%s)" % (self.cname, self.sym, self.origin)


class VGen(V):
    """Generator expression, not yet consumed."""

    def __init__(self, node, env, heap_snapshot=None):
        self.node, self.env = node, env


class VConst(V):
    """A named singleton constant of the repo (Undefined, Uninitialized, ...)
    or module object; `t` is its Val term."""

    def __init__(self, name, t):
        self.name, self.t = name, t

    def __repr__(self):
        return "VConst(%s)" % self.name


class VModule(V):
    def __init__(self, name):
        self.name = name


EXC_PARENT = {
    "BaseException": None,
    "Exception": "BaseException",
    "KeyboardInterrupt": "BaseException",
    "LookupError": "Exception",
    "IndexError": "LookupError",
    "KeyError": "LookupError",
    "ValueError": "Exception",
    "TypeError": "Exception",
    "AttributeError": "Exception",
    "RuntimeError": "Exception",
    "StopIteration": "Exception",
    "AssertionError": "Exception",
    "NotImplementedError": "RuntimeError",
    "OverflowError": "Exception",
    "TraitError": "Exception",
    "DelegationError": "TraitError",
    "TraitNotificationError": "Exception",
    "NotifierNotFound": "Exception",
    "AdaptationError": "TypeError",
    "UnboundLocalError": "Exception",
    "SystemError": "Exception",
    "ZeroDivisionError": "Exception",
    "ImportError": "Exception",
    "OSError": "Exception",
}


def exc_isa(cname, target):
    while cname is not None:
        if cname == target:
            return True
        cname = EXC_PARENT.get(cname)
    return False


# ---------------------------------------------------------------------------------------------
# named comprehension terms: a set / map built pointwise is a fresh array constant *defined* by a
# quantified axiom (definitional extension) rather than a z3 lambda term -- lambdas as arguments of
# uninterpreted functions make z3's array theory give up ("incomplete (theory array)").
# ---------------------------------------------------------------------------------------------
DEFS = []            # definitional axioms, collected by the unit driver
_DEF_CACHE = {}


def reset_defs():
    del DEFS[:]
    _DEF_CACHE.clear()


def mk_lambda(var, body):
    canon = z3.Const("x!def", var.sort())
    b = z3.substitute(body, (var, canon))
    key = (var.sort().name(), b.sexpr())
    if key not in _DEF_CACHE:
        arr = z3.Const("def!%d" % len(_DEF_CACHE), z3.ArraySort(var.sort(), body.sort()))
        DEFS.append(z3.ForAll([canon], arr[canon] == b))
        _DEF_CACHE[key] = arr
    return _DEF_CACHE[key]
