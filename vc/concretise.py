"""Turning solver models into concrete Python inputs."""
import z3


class Universe:
    """Maps the elements of the uninterpreted sort Val that a model mentions to small integers."""

    def __init__(self, m):
        self.m = m
        self.ids = {}

    def ev(self, t):
        return self.m.eval(t, model_completion=True)

    def val(self, t):
        v = self.ev(t)
        k = str(v)
        if k not in self.ids:
            self.ids[k] = (len(self.ids), v)
        return self.ids[k][0]

    def int(self, t):
        return self.ev(t).as_long()

    def bool(self, t):
        return z3.is_true(self.ev(t))

    def seq(self, s, cap=12):
        n = self.int(z3.Length(s))
        if n > cap:
            raise ValueError("model sequence too long to concretise (%d)" % n)
        return [self.val(s[i]) for i in range(n)]

    def optint(self, c):
        return None if self.bool(c.is_none) else self.int(c.t)

    def slice(self, sl):
        return {"slice": [self.optint(sl.start), self.optint(sl.stop), self.optint(sl.step)]}

    def validator_table(self, V):
        """ok/val tables over every element seen so far (val may introduce new elements)."""
        ok, val = {}, {}
        for k, (i, v) in list(self.ids.items()):
            ok[i] = self.bool(V.ok(v))
            if ok[i]:
                val[i] = self.val(V.val(v))
        return dict(ok=ok, val=val)

    def universe(self):
        from .pyvc.values import Val
        try:
            return list(self.m.get_universe(Val) or [])
        except Exception:
            return []

    def map_entries(self, M, extra=()):
        """Entries of a MapV model restricted to the model's universe of Val (plus `extra` terms)."""
        from .pyvc.values import Opt
        out = {}
        for v in list(self.universe()) + [self.ev(t) for t in extra] + [v for (_i, v) in list(self.ids.values())]:
            e = self.ev(M[v])
            if str(e) != "none":
                out[self.val(v)] = self.val(Opt.get(M[v]))
        return out

    def set_members(self, S, extra=()):
        out = set()
        for v in list(self.universe()) + [self.ev(t) for t in extra] + [v for (_i, v) in list(self.ids.values())]:
            if self.bool(S[v]):
                out.add(self.val(v))
        return sorted(out)
