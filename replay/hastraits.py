"""Replay harness for CHasTraits lookups (C10 / C13 / C18): get_trait."""
import json
import sys


def get_trait_case(case):
    """Two probes of HasTraits._trait(name, 2), the creation of an instance trait:
    (a) the final dictionary insertion fails (a str-subclass name whose __hash__ starts raising): the call raises and must
        not leak the freshly cloned trait (observed through the reference count of the class trait's handler);
    (b) the name is undeclared and a trait_added handler creates instance traits while the prefix trait is being resolved:
        the object's instance-trait dictionary as the handler saw it must still be the object's dictionary afterwards."""
    import gc
    from traits.api import HasTraits, Int
    violated = []
    ob = case.get("obligation", "")
    if "prefix-trait" not in ob:
        class Flaky(str):
            calls, limit = 0, 1

            def __hash__(self):
                Flaky.calls += 1
                if Flaky.calls > Flaky.limit:
                    raise ZeroDivisionError("hash fails")
                return str.__hash__(self)

            def __eq__(self, other):
                return str.__eq__(self, other)

        class A(HasTraits):
            x = Int
        h = A.class_traits()["x"].handler
        r0 = sys.getrefcount(h)
        n, raised = 50, 0
        for _ in range(n):
            a = A()
            Flaky.calls = 0
            try:
                a._trait(Flaky("x"), 2)
            except ZeroDivisionError:
                raised += 1
            del a
        gc.collect()
        leaked = sys.getrefcount(h) - r0
        if leaked:
            violated.append("%d failing _trait(name, 2) calls (dictionary insertion of the new instance trait fails) leaked %d references "
                            "to the class trait's handler" % (raised, leaked))
    if "class-trait" not in ob:
        held = []

        class B(HasTraits):
            x = Int

            def _trait_added_changed(self, name):
                self.on_trait_change(self.inner, name)
                self.add_trait("made_by_handler", Int(7))
                held.append(self._instance_traits())

            def inner(self, obj, name, old, new):
                pass
        b = B()
        b._trait("foo", 2)
        if held and held[0] is not b._instance_traits():
            violated.append("the instance-trait dictionary seen by a trait_added handler was replaced afterwards: instance traits now %r, "
                            "the handler had %r (dictionary leaked, %d references)" % (
                                sorted(b._instance_traits()), sorted(held[0]), sys.getrefcount(held[0]) - 1))
    return dict(reproduced=bool(violated), violated=violated)


def clone_case(case):
    """C18 / C14: CTrait.clone(source) onto a trait that already has a definition releases what it replaces."""
    from traits.api import Int
    from traits.ctrait import CTrait

    class H:
        pass
    t = CTrait(0)
    h = H()
    t.handler = h
    other = Int().as_ctrait()
    r0 = sys.getrefcount(h)
    n = 50
    for _ in range(n):
        t.clone(other)
        t.handler = h
    leaked = sys.getrefcount(h) - r0
    violated = []
    if leaked:
        violated.append("%d clone() calls onto a trait that held a handler leaked %d references to that handler" % (n, leaked))
    if t.handler is not h or other.handler is None:
        violated.append("clone / handler assignment did not behave: %r %r" % (t.handler, other.handler))
    return dict(reproduced=bool(violated), violated=violated)


def prefix_trait_unhashable_case(case):
    """C18: reading an undeclared attribute through a str-subclass name whose __hash__ starts failing at some point must
    end in an exception or a value, never in a crash.  The point of failure is swept (child process per point)."""
    import subprocess
    prog = r"""
import sys
from traits.api import HasTraits, Int, push_exception_handler
push_exception_handler(lambda *a: None)
class Flaky(str):
    calls = 0
    limit = int(sys.argv[1])
    def __hash__(self):
        Flaky.calls += 1
        if Flaky.calls > Flaky.limit:
            raise ZeroDivisionError("hash fails")
        return str.__hash__(self)
    def __eq__(self, other):
        return str.__eq__(self, other)
class A(HasTraits):
    x = Int
a = A()
try:
    getattr(a, Flaky("undeclared_attr"))
    print("RESULT value")
except BaseException as e:
    print("RESULT raised", type(e).__name__)
"""
    violated, seen = [], {}
    for limit in range(0, 14):
        p = subprocess.run([sys.executable, "-c", prog, str(limit)], capture_output=True, text=True, timeout=60)
        seen[limit] = p.returncode
        if p.returncode < 0:
            violated.append("getattr(obj, name) with a str-subclass name whose __hash__ raises from its call number %d on: "
                            "interpreter killed by signal %d" % (limit + 1, -p.returncode))
    return dict(reproduced=bool(violated), violated=violated[:3], observed=seen)


def prefix_cache_inherited_case(case):
    """C13 over histories: which trait governs a name in a class must not depend on whether the name was ever used on an
    instance of a base class before the class was defined."""
    import subprocess
    prog = r"""
import sys
from traits.api import HasTraits, Int, TraitError
class A(HasTraits):
    pass
if sys.argv[1] == "touch":
    a = A(); a.foo = 1
class B(A):
    f_ = Int
b = B()
try:
    b.foo = "not an int"
    print("RESULT accepted")
except TraitError:
    print("RESULT TraitError")
"""
    res = {}
    for mode in ("notouch", "touch"):
        p = subprocess.run([sys.executable, "-c", prog, mode], capture_output=True, text=True, timeout=60)
        res[mode] = ([l for l in p.stdout.splitlines() if l.startswith("RESULT")] or ["rc=%d" % p.returncode])[-1]
    violated = []
    if res["touch"] != res["notouch"]:
        violated.append("class B(A): f_ = Int; B().foo = 'not an int' gives %r, but %r when an instance of A had its undeclared "
                        "attribute foo assigned before B was defined (the Python trait cached in A's class traits is inherited by B "
                        "and shadows B's own prefix trait)" % (res["notouch"], res["touch"]))
    return dict(reproduced=bool(violated), violated=violated, observed=res)


def copy_traits_case(case):
    """C14 (statement): clone_traits / deepcopy / pickle yield an object of the same class whose non-transient trait values
    equal the original's, transient traits back at their defaults, no mutable container shared, copies live.  Classes mixing
    plain, container, transient, delegated (declared before AND after their target), prototyped-with-local-value, property
    and event traits, in both declaration orders."""
    import copy
    import pickle
    from traits.api import (HasTraits, Instance, List, Dict, Int, Str, Event, Property, PrototypedFrom, DelegatesTo, TraitError)
    violated = []

    class Style(HasTraits):
        color = Str("black")
        size = Int(3)

    def mk(order):
        body = {}
        decl = [("color", lambda: PrototypedFrom("style")), ("size", lambda: DelegatesTo("style")), ("style", lambda: Instance(Style)),
                ("items", lambda: List(Int)), ("table", lambda: Dict(Str, Int)), ("label", lambda: Str("x")), ("scratch", lambda: Int(7, transient=True)),
                ("ping", lambda: Event()), ("double", lambda: Property(Int, observe="count")), ("count", lambda: Int(1))]
        if order == "target-first":
            decl = [decl[2]] + decl[:2] + decl[3:]
        elif order == "reversed":
            decl = decl[::-1]
        for n, f in decl:
            body[n] = f()
        body["_get_double"] = lambda self: 2 * self.count
        body["_set_double"] = lambda self, v: setattr(self, "count", v // 2)
        return type("Widget_" + order.replace("-", "_"), (HasTraits,), body)
    for order in ("delegate-first", "target-first", "reversed"):
        cls = mk(order)
        globals()[cls.__name__] = cls            # picklable
        cls.__module__ = __name__
        cls.__qualname__ = cls.__name__
        o = cls(style=Style(color="blue"))
        o.color = "red"            # local value of the prototyped attribute
        o.items = [1, 2, 3]
        o.table = {"a": 1}
        o.label = "hello"
        o.scratch = 99
        o.count = 5
        for how, make in (("clone_traits()", lambda: o.clone_traits()), ("clone_traits(copy='deep')", lambda: o.clone_traits(copy="deep")),
                          ("copy.deepcopy", lambda: copy.deepcopy(o)), ("pickle", None), ("copy.copy", lambda: copy.copy(o))):
            if how == "pickle":
                try:
                    blob = pickle.dumps(o)
                except Exception:
                    continue          # dynamically created classes may not pickle: not what is probed here
                make = lambda blob=blob: pickle.loads(blob)
            try:
                n = make()
            except Exception as e:
                violated.append("%s / %s raised %r" % (order, how, e))
                continue
            w = "%s / %s" % (order, how)
            if type(n) is not cls:
                violated.append("%s: class %r" % (w, type(n)))
                continue
            for name in ("color", "label", "count", "double"):
                if getattr(n, name) != getattr(o, name):
                    violated.append("%s: %s is %r, the original has %r" % (w, name, getattr(n, name), getattr(o, name)))
            if list(n.items) != [1, 2, 3] or dict(n.table) != {"a": 1}:
                violated.append("%s: container values differ: %r %r" % (w, n.items, n.table))
            if n.style is None or n.style.color != "blue" or n.size != 3:
                violated.append("%s: prototype / delegate target not carried over (style=%r)" % (w, n.style))
            if n.scratch != 7:
                violated.append("%s: transient trait is %r, default is 7" % (w, n.scratch))
            if how not in ("clone_traits()", "copy.copy") and (n.items is o.items or n.table is o.table or n.style is o.style):
                violated.append("%s: a mutable value is shared with the original" % w)
            if n.items is o.items:
                violated.append("%s: the list object itself is shared" % w)
            try:
                n.items.append("bad")
                violated.append("%s: the copy's list accepts an invalid item" % w)
            except TraitError:
                pass
            seen = []
            n.observe(lambda e: seen.append(e), "items.items")
            n.items.append(4)
            if len(seen) != 1 or list(o.items) != [1, 2, 3]:
                violated.append("%s: list of the copy not live / not independent (events %d, original %r)" % (w, len(seen), list(o.items)))
    return dict(reproduced=bool(violated), violated=violated[:8])


def default_isolation_case(case):
    """C10 (statement): the first read returns the declared default -- a fresh copy of a container default per instance --
    later reads return the same object, and mutating one instance's default container changes nothing observable on
    another instance, on a later instance or on the class."""
    import traits.api as T
    from traits.api import HasTraits
    violated = []

    class Pairs(T.TraitType):
        default_value = [(0, 0)]
    decls = {
        "List(Int, [1, 2])": lambda: T.List(T.Int, [1, 2]), "Dict(Str, Int, {'a': 1})": lambda: T.Dict(T.Str, T.Int, {"a": 1}),
        "Set(Int, {1})": lambda: T.Set(T.Int, {1}), "Any([1])": lambda: T.Any([1]), "Any({'k': 1})": lambda: T.Any({"k": 1}),
        "Union(Any(['a']), None)": lambda: T.Union(T.Any(["a"]), None), "Union(Any({'k': 1}), Int)": lambda: T.Union(T.Any({"k": 1}), T.Int),
        "Union(Pairs(), None)": lambda: T.Union(Pairs(), None), "Union(List(Int, [1]), None)": lambda: T.Union(T.List(T.Int, [1]), None),
        "Either(List(Int), None) default list": lambda: T.Either(T.List(T.Int), None, default=[3]),
        "Pairs()": lambda: Pairs(), "Tuple(List(Int), Int)": lambda: T.Tuple(T.List(T.Int), T.Int),
    }

    def mutate(v):
        import copy
        if isinstance(v, list):
            v.append(v[0] if v else 9)
        elif isinstance(v, dict):
            v[next(iter(v), "z")] = 99 if isinstance(next(iter(v.values()), 0), int) else None
            v.setdefault("extra" if all(isinstance(k, str) for k in v) else 12345, 5)
        elif isinstance(v, set):
            v.add(77)
        elif isinstance(v, tuple) and v and isinstance(v[0], list):
            v[0].append(4)
        else:
            return False
        return True
    import copy
    for label, mk in decls.items():
        try:
            class A(HasTraits):
                x = mk()
            a, b = A(), A()
            first = a.x
            declared = copy.deepcopy(first)
            if a.x is not first:
                violated.append("%s: a second read returns another object" % label)
            if not mutate(a.x):
                continue
            if b.x is first or (isinstance(first, tuple) and first and b.x[0] is first[0]):
                violated.append("%s: two instances share the default object" % label)
            if b.x != declared:
                violated.append("%s: after mutating a's default, b reads %r (declared %r)" % (label, b.x, declared))
            c = A()
            if c.x != declared:
                violated.append("%s: after mutating a's default, a NEW instance reads %r (declared %r)" % (label, c.x, declared))
            d = A.class_traits()["x"].default_value_for(A(), "x")
            if d != declared:
                violated.append("%s: after mutating a's default, the class trait's default is %r (declared %r)" % (label, d, declared))
        except Exception as e:
            violated.append("%s: %s: %s" % (label, type(e).__name__, e))
    return dict(reproduced=bool(violated), violated=violated[:8])


def subclass_cached_getter_case(case):
    """C12 (statement): an observed Property always reads as what its getter computes from the current state, cached or not,
    also when the caching is introduced by a subclass that overrides only the getter; every dependency change announces."""
    from traits.api import HasTraits, Int, List, Instance, Property, cached_property
    violated = []

    class Item(HasTraits):
        value = Int(1)

    class Basket(HasTraits):
        items = List(Instance(Item))
        bonus = Int(0)
        total = Property(Int, observe=["items.items.value", "bonus"])

        def _get_total(self):
            return sum(i.value for i in self.items) + self.bonus

    class CachedBasket(Basket):
        computed = 0

        @cached_property
        def _get_total(self):
            self.computed += 1
            return sum(i.value for i in self.items) + self.bonus

    class DeclaredCached(HasTraits):
        items = List(Instance(Item))
        bonus = Int(0)
        total = Property(Int, observe=["items.items.value", "bonus"])
        computed = 0

        @cached_property
        def _get_total(self):
            self.computed += 1
            return sum(i.value for i in self.items) + self.bonus

    class UncachedAgain(DeclaredCached):
        def _get_total(self):
            return sum(i.value for i in self.items) + self.bonus
    for cls in (Basket, CachedBasket, DeclaredCached, UncachedAgain):
        shared = Item(value=2)
        b = cls(items=[shared, shared, Item(value=5)])
        notes = []
        b.observe(lambda e: notes.append(e.new), "total")
        b.total
        steps = [("bonus = 11", lambda: setattr(b, "bonus", 11)), ("repeated item changes", lambda: setattr(shared, "value", 3)),
                 ("append", lambda: b.items.append(Item(value=7))), ("remove one occurrence", lambda: b.items.remove(shared)),
                 ("replace the list", lambda: setattr(b, "items", [Item(value=1)])), ("item of the new list", lambda: setattr(b.items[0], "value", 9))]
        for label, act in steps:
            del notes[:]
            before = getattr(b, "computed", 0)
            act()
            fresh = sum(i.value for i in b.items) + b.bonus
            r1, r2 = b.total, b.total
            if r1 != fresh or r2 != fresh:
                violated.append("%s after %s: reads %r / %r, the getter computes %r" % (cls.__name__, label, r1, r2, fresh))
            if not notes or notes[-1] != fresh:
                violated.append("%s after %s: notifications for 'total' carried %r, expected a final %r" % (cls.__name__, label, notes, fresh))
            if hasattr(cls, "computed") and "cached" in cls.__name__.lower() and cls.__name__ != "UncachedAgain" and getattr(b, "computed", 0) - before > 2:
                violated.append("%s after %s: the cached getter ran %d times" % (cls.__name__, label, b.computed - before))
    return dict(reproduced=bool(violated), violated=violated[:6])


def prefix_order_case(case):
    """C13 (statement): an undeclared name is governed by the wildcard trait with the LONGEST matching prefix, own or inherited,
    from any base class."""
    from traits.api import HasTraits, HasStrictTraits, Int, Str, Event, TraitError
    violated = []

    class Base(HasTraits):
        foo_bar_ = Str("base")

    class Derived(Base):
        foo_ = Int(7)

    class Mixin(HasTraits):
        num_ = Int(3)

    class First(HasTraits):
        txt_ = Str("t")

    class Both(First, Mixin):
        pass

    class SBase(HasStrictTraits):
        sig_fire_ = Event()

    class SDerived(SBase):
        sig_ = Int(0)

    def governed_as(obj, name, good, bad, label):
        try:
            setattr(obj, name, good)
        except TraitError:
            violated.append("%s: %r rejected for %s although the longest matching wildcard accepts it" % (label, good, name))
        try:
            setattr(obj, name, bad)
            violated.append("%s: %r accepted for %s although the longest matching wildcard rejects it" % (label, bad, name))
        except TraitError:
            pass
    d = Derived()
    if d.foo_bar_x != "base":
        violated.append("Derived().foo_bar_x reads %r: governed by the shorter own wildcard foo_ instead of the inherited foo_bar_" % (d.foo_bar_x,))
    governed_as(Derived(), "foo_bar_y", "text", 5, "inherited longer wildcard foo_bar_ (Str) vs own foo_ (Int)")
    governed_as(Derived(), "foo_z", 5, "text", "own wildcard foo_ (Int)")
    b = Both()
    try:
        if b.num_a != 3:
            violated.append("Both().num_a reads %r, the wildcard num_ of the second base says 3" % (b.num_a,))
    except AttributeError as e:
        violated.append("Both().num_a raised AttributeError: the wildcard of the second base class is not consulted (%s)" % e)
    governed_as(Both(), "num_b", 4, "text", "wildcard num_ (Int) from the second base")
    sd = SDerived()
    try:
        sd.sig_fire_now
        violated.append("SDerived().sig_fire_now is readable although the inherited Event wildcard sig_fire_ governs it")
    except AttributeError:
        pass
    return dict(reproduced=bool(violated), violated=violated[:8])


def class_state_untouched_case(case):
    """C10 (statement): no sequence of operations on one instance changes the trait definitions observable on another instance
    of the same class or on the class itself -- in particular the query methods built on traits() are read-only."""
    import copy
    import pickle
    from traits.api import HasTraits, Int, Str
    violated = []

    class Point(HasTraits):
        x = Int(1)
        y = Int(2)
    globals()["Point"] = Point
    Point.__module__ = __name__
    Point.__qualname__ = "Point"

    def snapshot():
        ct = Point.class_traits()
        return (sorted(ct), {n: id(t) for n, t in ct.items()}, sorted(Point().trait_names()), Point.class_traits()["x"].default)
    for label, prepare in (("add_trait('tag', Str)", lambda a: a.add_trait("tag", Str("t"))),
                           ("add_trait('x', Int(99)) over a class trait", lambda a: a.add_trait("x", Int(99))),
                           ("on_trait_change(h, 'y')", lambda a: a.on_trait_change(lambda: None, "y"))):
        for qlabel, query in (("clone_traits()", lambda a: a.clone_traits()), ("deepcopy", lambda a: copy.deepcopy(a)), ("pickle.dumps", lambda a: pickle.dumps(a)),
                              ("editable_traits()", lambda a: a.editable_traits()), ("trait_names(type='trait')", lambda a: a.trait_names(type="trait")),
                              ("trait_get(transient=None)", lambda a: a.trait_get(transient=lambda v: v is None)), ("traits()", lambda a: a.traits())):
            before = snapshot()
            b = Point()
            a = Point()
            prepare(a)
            try:
                query(a)
            except Exception:
                pass
            after = snapshot()
            if after != before:
                violated.append("after a.%s and a.%s the CLASS reports other trait definitions: names %s -> %s, new instances report %s, class default of x %r -> %r" % (
                    label, qlabel, before[0], after[0], after[2], before[3], after[3]))
            if sorted(b.trait_names()) != before[2]:
                violated.append("after a.%s and a.%s ANOTHER instance reports %s" % (label, qlabel, sorted(b.trait_names())))
            # undo what a correct library leaves behind: nothing (instance traits die with `a`)
            if len(violated) >= 4:
                break
        if len(violated) >= 4:
            break
    return dict(reproduced=bool(violated), violated=violated[:4])


def remove_trait_case(case):
    """C13: after remove_trait(name) the instance trait AND the value stored under it are gone -- the name is governed by the
    class-level rule again (declared trait, wildcard, or a wildcard resolution cached in the class), whatever that rule is."""
    from traits.api import HasTraits, HasStrictTraits, Int, Str, Event, Constant, ReadOnly, TraitError, Map, List
    violated = []

    class Strict(HasStrictTraits):
        fired = Event
        limit = Constant(10)
        ident = ReadOnly
        plain = Int(4)

    class Loose(HasTraits):
        plain = Int(4)
        _ = Str("wild")
    for cls in (Strict, Loose):
        for name in ("fired", "limit", "ident", "plain", "extra", "other_thing"):
            if name in ("fired", "limit", "ident") and cls is Loose:
                continue
            for probe_first in (False, True):
                for shadow in (Int, Map({"a": 1, "b": 2}), List(Int)):
                    o, ref = cls(), cls()
                    if probe_first:
                        hasattr(o, name)              # resolves (and caches) the class-level rule before the trait is added
                    o.add_trait(name, shadow)
                    value = {Int: 70}.get(shadow, "b" if isinstance(shadow, Map) else [1, 2])
                    try:
                        setattr(o, name, value)
                    except Exception as e:
                        violated.append("%s.%s: the instance trait did not govern the write: %r" % (cls.__name__, name, e))
                        continue
                    if o.remove_trait(name) is not True:
                        violated.append("%s.%s: remove_trait did not return True" % (cls.__name__, name))
                    w = "%s.%s (%s, %s)" % (cls.__name__, name, type(shadow).__name__ if not isinstance(shadow, type) else shadow.__name__, "probed first" if probe_first else "not probed")
                    if name in o.__dict__:
                        violated.append("%s: the value stored under the removed instance trait is still in the object's dictionary (%r)" % (w, o.__dict__[name]))
                    if name in o._instance_traits():
                        violated.append("%s: the instance trait is still installed" % w)

                    def read(x):
                        try:
                            return ("value", getattr(x, name))
                        except AttributeError:
                            return ("AttributeError",)
                        except Exception as e:
                            return ("raises", type(e).__name__)
                    if read(o) != read(ref):
                        violated.append("%s: reads %r afterwards, an untouched instance reads %r" % (w, read(o), read(ref)))
    return dict(reproduced=bool(violated), violated=violated[:8])


def owned_container_copy_case(case):
    """C14: copying an object carries every container value over, whatever length bounds the container trait declares."""
    import copy
    import pickle
    from traits.api import HasTraits, List, Int, Str, Dict, Set
    violated = []

    class Route(HasTraits):
        stops = List(Str, ["origin"], minlen=1)
        legs = List(List(Int, minlen=1))
        pair = List(Int, [1, 2], minlen=2, maxlen=2)
        free = List(Int)
        table = Dict(Str, Int)
        tags = Set(Str)
    globals()["Route"] = Route
    Route.__module__ = __name__
    Route.__qualname__ = "Route"
    o = Route(stops=["A", "B", "C"], legs=[[1, 2], [3]], pair=[8, 9], free=[5], table={"a": 1}, tags={"x"})
    ways = [("copy.deepcopy", lambda: copy.deepcopy(o)), ("clone_traits()", lambda: o.clone_traits()), ("clone_traits(copy='deep')", lambda: o.clone_traits(copy="deep")),
            ("deepcopy of the bare list", None)]
    try:
        blob = pickle.dumps(o)
        ways.append(("pickle", lambda: pickle.loads(blob)))
    except Exception:
        pass
    for how, make in ways:
        if make is None:
            for nm in ("stops", "legs", "pair", "free"):
                try:
                    c = copy.deepcopy(getattr(o, nm))
                    if list(c) != list(getattr(o, nm)):
                        violated.append("deepcopy(%s) gives %r, the original holds %r" % (nm, list(c), list(getattr(o, nm))))
                except Exception as e:
                    violated.append("deepcopy(%s) raised %r" % (nm, e))
            continue
        try:
            n = make()
        except Exception as e:
            violated.append("%s raised %r" % (how, e))
            continue
        for nm in ("stops", "legs", "pair", "free"):
            if [list(x) if isinstance(x, list) else x for x in getattr(n, nm)] != [list(x) if isinstance(x, list) else x for x in getattr(o, nm)]:
                violated.append("%s: %s is %r, the original has %r" % (how, nm, getattr(n, nm), getattr(o, nm)))
        if dict(n.table) != {"a": 1} or set(n.tags) != {"x"}:
            violated.append("%s: table / tags are %r / %r" % (how, n.table, n.tags))
        try:
            n.stops.append(3)
            violated.append("%s: the copy's list accepts an invalid item" % how)
        except Exception:
            pass
    return dict(reproduced=bool(violated), violated=violated[:8])


def tuple_default_case(case):
    """C10: the default of a Tuple with a member that needs a per-instance default is computed per instance: mutating it
    through one instance is invisible to other instances, to later instances and to the member trait's own default."""
    from traits.api import HasTraits, Tuple, List, Int, Str, Dict
    violated = []
    shapes = [("Tuple(List(Int), Int)", lambda: Tuple(List(Int), Int), 0), ("Tuple(Int, List(Int))", lambda: Tuple(Int, List(Int)), 1),
              ("Tuple(Str, List(Int), Int, Str)", lambda: Tuple(Str, List(Int), Int, Str), 1), ("Tuple(List(Int), List(Int), Int)", lambda: Tuple(List(Int), List(Int), Int), 1),
              ("Tuple(Dict(Str, Int), Int)", lambda: Tuple(Dict(Str, Int), Int), 0), ("Tuple(List(Int),)", lambda: Tuple(List(Int)), 0)]
    for label, mk, pos in shapes:
        cls = type("T", (HasTraits,), {"entry": mk()})
        a, b = cls(), cls()
        inner = a.entry[pos]
        if isinstance(inner, dict):
            inner["k"] = 1
        else:
            inner.append(1)
        if b.entry[pos]:
            violated.append("%s: after mutating a's default, another instance's default reads %r" % (label, b.entry))
        if a.entry[pos] is b.entry[pos]:
            violated.append("%s: two instances share one default container object" % label)
        c = cls()
        if c.entry[pos]:
            violated.append("%s: a fresh instance's default reads %r" % (label, c.entry))
    return dict(reproduced=bool(violated), violated=violated[:8])


def main():
    case = json.loads(sys.stdin.read())
    out = {"get_trait": get_trait_case, "clone": clone_case, "prefix_trait_unhashable": prefix_trait_unhashable_case,
           "prefix_cache_inherited": prefix_cache_inherited_case, "copy_traits": copy_traits_case, "default_isolation": default_isolation_case, "subclass_cached_getter": subclass_cached_getter_case, "prefix_order": prefix_order_case, "class_state_untouched": class_state_untouched_case, "remove_trait": remove_trait_case, "owned_container_copy": owned_container_copy_case, "tuple_default": tuple_default_case}[case["family"]](case)
    print(json.dumps(out, default=repr))


if __name__ == "__main__":
    main()
