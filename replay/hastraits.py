"""Replay harness for CHasTraits lookups (C10 / C13 / C18): get_trait."""
import json
import sys


def get_trait_case(case):
    """Two probes of HasTraits._trait(name, 2), the creation of an instance trait:
    (a) the final dictionary insertion fails (a str-subclass name whose __hash__ starts raising): the call raises and must
        not leak the freshly cloned trait (observed through the reference count of the class trait's handler);
    (b) the name is undeclared and a trait_added handler creates instance traits while the prefix trait is being resolved:
        the object's instance-trait dictionary as the handler saw it must still be the object's dictionary afterwards."""
    import gc
    from traits.api import HasTraits, Int
    violated = []
    ob = case.get("obligation", "")
    if "prefix-trait" not in ob:
        class Flaky(str):
            calls, limit = 0, 1

            def __hash__(self):
                Flaky.calls += 1
                if Flaky.calls > Flaky.limit:
                    raise ZeroDivisionError("hash fails")
                return str.__hash__(self)

            def __eq__(self, other):
                return str.__eq__(self, other)

        class A(HasTraits):
            x = Int
        h = A.class_traits()["x"].handler
        r0 = sys.getrefcount(h)
        n, raised = 50, 0
        for _ in range(n):
            a = A()
            Flaky.calls = 0
            try:
                a._trait(Flaky("x"), 2)
            except ZeroDivisionError:
                raised += 1
            del a
        gc.collect()
        leaked = sys.getrefcount(h) - r0
        if leaked:
            violated.append("%d failing _trait(name, 2) calls (dictionary insertion of the new instance trait fails) leaked %d references "
                            "to the class trait's handler" % (raised, leaked))
    if "class-trait" not in ob:
        held = []

        class B(HasTraits):
            x = Int

            def _trait_added_changed(self, name):
                self.on_trait_change(self.inner, name)
                self.add_trait("made_by_handler", Int(7))
                held.append(self._instance_traits())

            def inner(self, obj, name, old, new):
                pass
        b = B()
        b._trait("foo", 2)
        if held and held[0] is not b._instance_traits():
            violated.append("the instance-trait dictionary seen by a trait_added handler was replaced afterwards: instance traits now %r, "
                            "the handler had %r (dictionary leaked, %d references)" % (
                                sorted(b._instance_traits()), sorted(held[0]), sys.getrefcount(held[0]) - 1))
    return dict(reproduced=bool(violated), violated=violated)


def clone_case(case):
    """C18 / C14: CTrait.clone(source) onto a trait that already has a definition releases what it replaces."""
    from traits.api import Int
    from traits.ctrait import CTrait

    class H:
        pass
    t = CTrait(0)
    h = H()
    t.handler = h
    other = Int().as_ctrait()
    r0 = sys.getrefcount(h)
    n = 50
    for _ in range(n):
        t.clone(other)
        t.handler = h
    leaked = sys.getrefcount(h) - r0
    violated = []
    if leaked:
        violated.append("%d clone() calls onto a trait that held a handler leaked %d references to that handler" % (n, leaked))
    if t.handler is not h or other.handler is None:
        violated.append("clone / handler assignment did not behave: %r %r" % (t.handler, other.handler))
    return dict(reproduced=bool(violated), violated=violated)


def prefix_trait_unhashable_case(case):
    """C18: reading an undeclared attribute through a str-subclass name whose __hash__ starts failing at some point must
    end in an exception or a value, never in a crash.  The point of failure is swept (child process per point)."""
    import subprocess
    prog = r"""
import sys
from traits.api import HasTraits, Int, push_exception_handler
push_exception_handler(lambda *a: None)
class Flaky(str):
    calls = 0
    limit = int(sys.argv[1])
    def __hash__(self):
        Flaky.calls += 1
        if Flaky.calls > Flaky.limit:
            raise ZeroDivisionError("hash fails")
        return str.__hash__(self)
    def __eq__(self, other):
        return str.__eq__(self, other)
class A(HasTraits):
    x = Int
a = A()
try:
    getattr(a, Flaky("undeclared_attr"))
    print("RESULT value")
except BaseException as e:
    print("RESULT raised", type(e).__name__)
"""
    violated, seen = [], {}
    for limit in range(0, 14):
        p = subprocess.run([sys.executable, "-c", prog, str(limit)], capture_output=True, text=True, timeout=60)
        seen[limit] = p.returncode
        if p.returncode < 0:
            violated.append("getattr(obj, name) with a str-subclass name whose __hash__ raises from its call number %d on: "
                            "interpreter killed by signal %d" % (limit + 1, -p.returncode))
    return dict(reproduced=bool(violated), violated=violated[:3], observed=seen)


def prefix_cache_inherited_case(case):
    """C13 over histories: which trait governs a name in a class must not depend on whether the name was ever used on an
    instance of a base class before the class was defined."""
    import subprocess
    prog = r"""
import sys
from traits.api import HasTraits, Int, TraitError
class A(HasTraits):
    pass
if sys.argv[1] == "touch":
    a = A(); a.foo = 1
class B(A):
    f_ = Int
b = B()
try:
    b.foo = "not an int"
    print("RESULT accepted")
except TraitError:
    print("RESULT TraitError")
"""
    res = {}
    for mode in ("notouch", "touch"):
        p = subprocess.run([sys.executable, "-c", prog, mode], capture_output=True, text=True, timeout=60)
        res[mode] = ([l for l in p.stdout.splitlines() if l.startswith("RESULT")] or ["rc=%d" % p.returncode])[-1]
    violated = []
    if res["touch"] != res["notouch"]:
        violated.append("class B(A): f_ = Int; B().foo = 'not an int' gives %r, but %r when an instance of A had its undeclared "
                        "attribute foo assigned before B was defined (the Python trait cached in A's class traits is inherited by B "
                        "and shadows B's own prefix trait)" % (res["notouch"], res["touch"]))
    return dict(reproduced=bool(violated), violated=violated, observed=res)


def main():
    case = json.loads(sys.stdin.read())
    out = {"get_trait": get_trait_case, "clone": clone_case, "prefix_trait_unhashable": prefix_trait_unhashable_case,
           "prefix_cache_inherited": prefix_cache_inherited_case}[case["family"]](case)
    print(json.dumps(out, default=repr))


if __name__ == "__main__":
    main()
