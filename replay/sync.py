"""Replay harness for trait synchronisation (C20)."""
import gc
import json
import sys


def sync_items_case(case):
    from traits.api import HasTraits, List, Int, push_exception_handler
    push_exception_handler(lambda *a: None, reraise_exceptions=True)      # let handler exceptions surface

    class A(HasTraits):
        l = List(Int)
    violated = []
    a, b = A(l=[0, 1, 2, 3, 4, 5]), A()
    a.sync_trait("l", b, mutual=True)
    if case.get("partner_collected"):
        del b
        gc.collect()
        try:
            a.l.append(7)
        except Exception as e:
            violated.append("after the partner was garbage-collected, a list mutation raised %r from the sync handler" % (e,))
        info = a.__dict__.get("__sync_trait__", {})
        if info.get("", {}):
            violated.append("lock table not released after the failure: %r" % (info.get(""),))
        return dict(reproduced=bool(violated), violated=violated)
    ops = []
    if case.get("slice_event"):
        ops = [("a.l[::2] = [10, 12, 14]", lambda: a.l.__setitem__(slice(None, None, 2), [10, 12, 14])),
               ("del a.l[::3]", lambda: a.l.__delitem__(slice(None, None, 3)))]
    else:
        ops = [("a.l[1:3] = [8]", lambda: a.l.__setitem__(slice(1, 3), [8])), ("a.l.append(9)", lambda: a.l.append(9))]
    for text, op in ops:
        try:
            op()
        except Exception as e:
            violated.append("%s: the sync handler raised %r" % (text, e))
        if list(a.l) != list(b.l):
            violated.append("%s: lists differ afterwards: %r vs %r" % (text, list(a.l), list(b.l)))
    return dict(reproduced=bool(violated), violated=violated)


def main():
    case = json.loads(sys.stdin.read())
    out = {"sync_items": sync_items_case}[case["family"]](case)
    print(json.dumps(out, default=repr))


if __name__ == "__main__":
    main()
