"""Replay harness for trait synchronisation (C20)."""
import gc
import json
import sys


def sync_items_case(case):
    from traits.api import HasTraits, List, Int, push_exception_handler
    push_exception_handler(lambda *a: None, reraise_exceptions=True)      # let handler exceptions surface

    class A(HasTraits):
        l = List(Int)
    violated = []
    a, b = A(l=[0, 1, 2, 3, 4, 5]), A()
    a.sync_trait("l", b, mutual=True)
    if case.get("partner_collected"):
        del b
        gc.collect()
        try:
            a.l.append(7)
        except Exception as e:
            violated.append("after the partner was garbage-collected, a list mutation raised %r from the sync handler" % (e,))
        info = a.__dict__.get("__sync_trait__", {})
        if info.get("", {}):
            violated.append("lock table not released after the failure: %r" % (info.get(""),))
        return dict(reproduced=bool(violated), violated=violated)
    ops = []
    if case.get("slice_event"):
        ops = [("a.l[::2] = [10, 12, 14]", lambda: a.l.__setitem__(slice(None, None, 2), [10, 12, 14])),
               ("del a.l[::3]", lambda: a.l.__delitem__(slice(None, None, 3)))]
    else:
        ops = [("a.l[1:3] = [8]", lambda: a.l.__setitem__(slice(1, 3), [8])), ("a.l.append(9)", lambda: a.l.append(9))]
    for text, op in ops:
        try:
            op()
        except Exception as e:
            violated.append("%s: the sync handler raised %r" % (text, e))
        if list(a.l) != list(b.l):
            violated.append("%s: lists differ afterwards: %r vs %r" % (text, list(a.l), list(b.l)))
    return dict(reproduced=bool(violated), violated=violated)


def partner_collected_case(case):
    """C20 (statement): after a partner object has been garbage-collected changes no longer propagate to it and raise nothing,
    while every remaining link keeps converging -- also a link made afterwards; a partner that rejects a value with any
    exception leaves the pair as it was, and later changes in both directions still propagate."""
    import gc
    from traits.api import HasTraits, Int, List, TraitError, push_exception_handler, pop_exception_handler
    violated = []

    class A(HasTraits):
        t = Int()
        l = List(Int)
    raised = []
    push_exception_handler(lambda obj, name, old, new: raised.append((name, new)), reraise_exceptions=False, main=True)
    try:
        a, b, c = A(), A(), A()
        a.sync_trait("t", b)
        a.sync_trait("t", c)
        a.sync_trait("l", b)
        a.sync_trait("l", c)
        del c
        gc.collect()
        try:
            a.t = 5
            b.t = 6
            a.l.append(4)
            b.l.append(7)
        except Exception as e:
            violated.append("after one of two partners was collected a change raised %r" % (e,))
        if raised:
            violated.append("after one of two partners was collected a change handler raised for %r" % (raised,))
        if (a.t, b.t) != (6, 6) or list(a.l) != list(b.l) or list(a.l) != [4, 7]:
            violated.append("after one of two partners was collected the remaining pair diverged: t %r/%r, l %r/%r" % (a.t, b.t, list(a.l), list(b.l)))
        del b
        gc.collect()
        del raised[:]
        b2 = A()
        a.sync_trait("t", b2)
        a.t = 9
        b2.t = 10
        if (a.t, b2.t) != (10, 10) or raised:
            violated.append("a link made after the last partner was collected does not converge: %r/%r, handler exceptions %r" % (a.t, b2.t, raised))
        a.sync_trait("t", b2, remove=True)
        a.t = 12
        if b2.t != 10:
            violated.append("after removing the link a change still propagated (b2.t == %r)" % b2.t)

        # a partner whose validation raises something else than TraitError
        class Picky(HasTraits):
            t = Int()

            def _t_changed(self, new):
                pass
        from traits.api import TraitType

        class Unlucky(TraitType):
            default_value = 0

            def validate(self, object, name, value):
                if value == 13:
                    raise ValueError("unlucky")
                return value

        class Odd(HasTraits):
            t = Unlucky()
        del raised[:]
        x, y = A(), Odd()
        x.sync_trait("t", y)
        try:
            x.t = 13
        except Exception as e:
            violated.append("a partner refusing the value made the assignment raise %r" % (e,))
        x.t = 14
        y.t = 15
        if (x.t, y.t) != (15, 15):
            violated.append("after a partner refused a value with ValueError later changes no longer converge: %r/%r (handler exceptions %r)" % (x.t, y.t, raised))
    finally:
        pop_exception_handler()
    return dict(reproduced=bool(violated), violated=violated[:6])


def main():
    case = json.loads(sys.stdin.read())
    out = {"sync_items": sync_items_case, "partner_collected": partner_collected_case}[case["family"]](case)
    if case["family"] == "sync_items" and not out.get("reproduced"):
        more = partner_collected_case(case)        # the rejection / collection scenarios of the same handlers
        if more.get("reproduced"):
            out = more
    print(json.dumps(out, default=repr))


if __name__ == "__main__":
    main()
