"""Replay harness for observer registration (C09)."""
import json
import sys


def populations(objs):
    out = []
    for o in objs:
        row = {}
        for name in o.trait_names():
            t = o._trait(name, 0)
            if t is not None:
                n = len(t._notifiers(False) or [])
                if n:
                    row[name] = n
        inst = o._instance_traits() if hasattr(o, "_instance_traits") else {}
        for name, t in inst.items():
            n = len(t._notifiers(False) or [])
            if n:
                row["inst:" + name] = n
        out.append(row)
    return out


def atomic_case(case):
    from traits.api import HasTraits, Int, List, Instance

    class Good(HasTraits):
        value = Int

    class Bad(HasTraits):
        other = Int

    class Inner(HasTraits):
        items = List()

    class Root(HasTraits):
        items = List(Instance(Inner))
        a = Int
        leaf = Instance(Good)
    violated = []
    calls = []
    h = lambda event: calls.append(event)
    scenarios = []
    # a later child of a walk fails after an earlier one succeeded
    g = Good()
    r = Root(items=[Inner(items=[g, Bad()])])
    scenarios.append(("observe(h, 'items:items:value') with [Good(), Bad()]", r, "items:items:value", [r, r.items[0], g], lambda: setattr(g, "value", 5)))
    # a later graph of one expression fails after an earlier one was applied
    r2 = Root()
    scenarios.append(("observe(h, 'a, nope')", r2, "a, nope", [r2], lambda: setattr(r2, "a", 3)))
    # failure below an intermediate object
    r3 = Root(leaf=Good())
    scenarios.append(("observe(h, 'leaf.nope')", r3, "leaf.nope", [r3, r3.leaf], lambda: setattr(r3, "leaf", Good())))
    for text, root, expr, objs, poke in scenarios:
        before = populations(objs)
        del calls[:]
        try:
            root.observe(h, expr)
            violated.append("%s: expected the registration to raise" % text)
            continue
        except Exception:
            pass
        after = populations(objs)
        if after != before:
            violated.append("%s raised, but notifiers stayed attached: %r -> %r" % (text, before, after))
        poke()
        if calls:
            violated.append("%s raised, yet the handler was called %d time(s) afterwards" % (text, len(calls)))
    return dict(reproduced=bool(violated), violated=violated)


def main():
    case = json.loads(sys.stdin.read())
    out = {"atomic": atomic_case}[case["family"]](case)
    print(json.dumps(out, default=repr))


if __name__ == "__main__":
    main()
