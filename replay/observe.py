"""Replay harness for observer registration (C09)."""
import json
import sys


def populations(objs):
    out = []
    for o in objs:
        row = {}
        for name in o.trait_names():
            t = o._trait(name, 0)
            if t is not None:
                n = len(t._notifiers(False) or [])
                if n:
                    row[name] = n
        inst = o._instance_traits() if hasattr(o, "_instance_traits") else {}
        for name, t in inst.items():
            # an instance trait is a copy-on-write clone of the class trait: it starts with the class trait's notifiers; only
            # what it holds BEYOND those was attached to this object
            ct = o.__class__.__dict__.get("__class_traits__", {}).get(name) or o._trait(name, -1)
            base = [] if ct is None or ct is t else (ct._notifiers(False) or [])
            n = len([x for x in (t._notifiers(False) or []) if not any(x is y for y in base)])
            if n:
                row["inst:" + name] = n
        out.append(row)
    return out


def atomic_case(case):
    from traits.api import HasTraits, Int, List, Instance

    class Good(HasTraits):
        value = Int

    class Bad(HasTraits):
        other = Int

    class Inner(HasTraits):
        items = List()

    class Root(HasTraits):
        items = List(Instance(Inner))
        a = Int
        leaf = Instance(Good)
    violated = []
    calls = []
    h = lambda event: calls.append(event)
    scenarios = []
    # a later child of a walk fails after an earlier one succeeded
    g = Good()
    r = Root(items=[Inner(items=[g, Bad()])])
    scenarios.append(("observe(h, 'items:items:value') with [Good(), Bad()]", r, "items:items:value", [r, r.items[0], g], lambda: setattr(g, "value", 5)))
    # a later graph of one expression fails after an earlier one was applied
    r2 = Root()
    scenarios.append(("observe(h, 'a, nope')", r2, "a, nope", [r2], lambda: setattr(r2, "a", 3)))
    # failure below an intermediate object
    r3 = Root(leaf=Good())
    scenarios.append(("observe(h, 'leaf.nope')", r3, "leaf.nope", [r3, r3.leaf], lambda: setattr(r3, "leaf", Good())))
    for text, root, expr, objs, poke in scenarios:
        before = populations(objs)
        del calls[:]
        try:
            root.observe(h, expr)
            violated.append("%s: expected the registration to raise" % text)
            continue
        except Exception:
            pass
        after = populations(objs)
        if after != before:
            violated.append("%s raised, but notifiers stayed attached: %r -> %r" % (text, before, after))
        poke()
        if calls:
            violated.append("%s raised, yet the handler was called %d time(s) afterwards" % (text, len(calls)))
    # a REMOVAL that raises changes nothing: the handler registered n times on 'a' (never on 'b'), removal of 'a, b' / ['a','b']
    from traits.observation.api import trait as _trait
    from traits.observation.exceptions import NotifierNotFound

    class Two(HasTraits):
        a = Int
        b = Int
    for n in (1, 2, 3):
        for label, expr in (("'a, b'", "a, b"), ("['a', 'b']", ["a", "b"]), ("trait('a') | trait('b')", _trait("a") | _trait("b"))):
            o = Two()
            del calls[:]
            for _ in range(n):
                o.observe(h, "a")
            before = populations([o])
            try:
                o.observe(h, expr, remove=True)
                violated.append("removal of %s although 'b' was never observed did not raise" % label)
                continue
            except NotifierNotFound:
                pass
            except Exception as e:
                violated.append("removal of %s raised %r, expected NotifierNotFound" % (label, e))
            after = populations([o])
            o.a += 1
            if len(calls) != 1:
                violated.append("a removal of %s that raised (handler registered %d time(s) on 'a') changed the registrations: handler called %d time(s) per change, populations %r -> %r"
                                % (label, n, len(calls), before, after))
            # n legitimate removals must all succeed, the (n+1)-th must raise
            try:
                for _ in range(n):
                    o.observe(h, "a", remove=True)
            except Exception as e:
                violated.append("after the failed removal of %s a legitimate removal (%d registered) raised %r" % (label, n, e))
    return dict(reproduced=bool(violated), violated=violated[:6])


def reachability_case(case):
    """C08 (statement): after ANY sequence of container mutations a handler observing container.items.value is called
    exactly once per change of an object that is reachable now (once per object, however often it occurs), never for one
    that is not, and removing the last occurrence detaches it.  Random histories over a small pool with repeated objects and
    overlapping slice assignments; the oracle is the reachable set computed from the current containers."""
    import random
    from traits.api import HasTraits, Int, List, Dict, Str, Instance
    rnd = random.Random(int(case.get("seed", 0)))

    class Child(HasTraits):
        value = Int

    class Root(HasTraits):
        children = List(Instance(Child))
        named = Dict(Str, Instance(Child))
    violated = []
    for expr, attr in (("children.items.value", "children"), ("children:items:value", "children"), ("named.items.value", "named")):
        for trial in range(int(case.get("trials", 60))):
            pool = [Child() for _ in range(3)]
            root = Root()
            calls = []
            root.observe(lambda e: calls.append(e.object), expr)
            history = []
            try:
                for step in range(rnd.randint(1, 6)):
                    if attr == "children":
                        lst = root.children
                        op = rnd.choice(["append", "slice", "overlap", "overlap", "del", "set", "reverse", "assign", "extend"])
                        if op == "append":
                            lst.append(rnd.choice(pool))
                        elif op == "extend":
                            lst.extend([rnd.choice(pool) for _ in range(rnd.randint(0, 2))])
                        elif op == "slice":
                            a = rnd.randint(0, len(lst)); b = rnd.randint(a, len(lst))
                            lst[a:b] = [rnd.choice(pool) for _ in range(rnd.randint(0, 3))]
                        elif op == "overlap" and lst:
                            # replace a slice by a rearrangement of its own items with other multiplicities
                            a = rnd.randrange(len(lst)); b = rnd.randint(a + 1, len(lst))
                            old_items = list(lst[a:b])
                            lst[a:b] = [rnd.choice(old_items) for _ in range(rnd.randint(0, len(old_items) + 1))]
                        elif op == "del" and lst:
                            del lst[rnd.randrange(len(lst))]
                        elif op == "set" and lst:
                            lst[rnd.randrange(len(lst))] = rnd.choice(pool)
                        elif op == "reverse":
                            lst.reverse()
                        elif op == "assign":
                            root.children = [rnd.choice(pool) for _ in range(rnd.randint(0, 3))]
                        history.append((op, [pool.index(c) for c in root.children]))
                        reachable = set(map(id, root.children))
                    else:
                        d = root.named
                        op = rnd.choice(["set", "del", "update", "assign", "clear", "pop"])
                        if op == "clear":
                            d.clear()
                        elif op == "pop" and d:
                            d.pop(rnd.choice(sorted(d)))
                        elif op == "set":
                            d[rnd.choice("abc")] = rnd.choice(pool)
                        elif op == "del" and d:
                            del d[rnd.choice(sorted(d))]
                        elif op == "update":
                            d.update({k: rnd.choice(pool) for k in rnd.sample("abc", rnd.randint(0, 2))})
                        elif op == "assign":
                            root.named = {k: rnd.choice(pool) for k in rnd.sample("abc", rnd.randint(0, 3))}
                        history.append((op, {k: pool.index(v) for k, v in root.named.items()}))
                        reachable = set(map(id, root.named.values()))
                    for c in pool:
                        del calls[:]
                        c.value += 1
                        want = 1 if id(c) in reachable else 0
                        if len(calls) != want or any(o is not c for o in calls):
                            violated.append("%s after %r: child %d changed, handler called %d time(s), expected %d" % (
                                expr, history, pool.index(c), len(calls), want))
                            raise StopIteration
            except StopIteration:
                pass
            except Exception as e:
                violated.append("%s after %r: %s: %s" % (expr, history, type(e).__name__, e))
            if len(violated) >= 3:
                break
    return dict(reproduced=bool(violated), violated=violated[:3])


def legacy_case(case):
    """C16 (statement): on graphs where every object is referenced from at most one place, a handler registered with
    on_trait_change('<link>.value' / '<link>:value') is called for a change of the final attribute iff the changed object is
    reachable now, exactly as an observe handler for the corresponding expression; removal stops all calls.  Random
    histories of reassignments and container mutations over list, dict and instance links, objects never shared."""
    import random
    from traits.api import HasTraits, Int, List, Dict, Str, Instance
    rnd = random.Random(int(case.get("seed", 0)))

    class Child(HasTraits):
        value = Int

    class Root(HasTraits):
        children = List(Instance(Child))
        named = Dict(Str, Instance(Child))
        one = Instance(Child)
    violated = []
    for legacy, expr, attr in (("children.value", "children.items.value", "children"), ("named.value", "named.items.value", "named"),
                               ("named:value", "named:items:value", "named"), ("one.value", "one.value", "one")):
        for trial in range(int(case.get("trials", 60))):
            root = Root()
            everyone = []

            def fresh():
                c = Child()
                everyone.append(c)
                return c
            legacy_calls, observe_calls = [], []

            def on_legacy(obj, name, old, new):
                if name == "value":
                    legacy_calls.append(obj)

            def on_observe(e):
                observe_calls.append(e.object)
            root.on_trait_change(on_legacy, legacy)
            root.observe(on_observe, expr)
            history = []
            try:
                for step in range(rnd.randint(1, 6)):
                    if attr == "children":
                        lst = root.children
                        op = rnd.choice(["append", "slice", "del", "set", "assign", "extend", "pop"])
                        if op == "append":
                            lst.append(fresh())
                        elif op == "extend":
                            lst.extend([fresh() for _ in range(rnd.randint(0, 2))])
                        elif op == "slice":
                            a = rnd.randint(0, len(lst)); b = rnd.randint(a, len(lst))
                            lst[a:b] = [fresh() for _ in range(rnd.randint(0, 3))]
                        elif op == "del" and lst:
                            del lst[rnd.randrange(len(lst))]
                        elif op == "pop" and lst:
                            lst.pop()
                        elif op == "set" and lst:
                            lst[rnd.randrange(len(lst))] = fresh()
                        elif op == "assign":
                            root.children = [fresh() for _ in range(rnd.randint(0, 3))]
                        reachable = set(map(id, root.children))
                    elif attr == "named":
                        d = root.named
                        op = rnd.choice(["set", "del", "update", "update", "assign", "pop", "clear"])
                        if op == "set":
                            d[rnd.choice("abc")] = fresh()
                        elif op == "del" and d:
                            del d[rnd.choice(sorted(d))]
                        elif op == "pop" and d:
                            d.pop(rnd.choice(sorted(d)))
                        elif op == "clear":
                            d.clear()
                        elif op == "update":
                            d.update({k: fresh() for k in rnd.sample("abcd", rnd.randint(0, 3))})
                        elif op == "assign":
                            root.named = {k: fresh() for k in rnd.sample("abc", rnd.randint(0, 3))}
                        reachable = set(map(id, root.named.values()))
                    else:
                        op = rnd.choice(["assign", "none"])
                        root.one = fresh() if op == "assign" else None
                        reachable = {id(root.one)} if root.one is not None else set()
                    history.append(op)
                    for c in everyone:
                        del legacy_calls[:], observe_calls[:]
                        c.value += 1
                        want = 1 if id(c) in reachable else 0
                        if len(legacy_calls) != want or len(observe_calls) != want:
                            violated.append("on_trait_change(%r) / observe(%r) after %r: object %d (%s) changed: legacy handler called %d time(s), observe handler %d, expected %d" % (
                                legacy, expr, history, everyone.index(c), "reachable" if want else "detached", len(legacy_calls), len(observe_calls), want))
                            raise StopIteration
                root.on_trait_change(on_legacy, legacy, remove=True)
                for c in everyone:
                    del legacy_calls[:]
                    c.value += 1
                    if legacy_calls:
                        violated.append("on_trait_change(%r, remove=True) after %r: object %d still calls the handler" % (legacy, history, everyone.index(c)))
                        raise StopIteration
            except StopIteration:
                pass
            except Exception as e:
                violated.append("%s after %r: %s: %s" % (legacy, history, type(e).__name__, e))
            if len(violated) >= 3:
                break
    return dict(reproduced=bool(violated), violated=violated[:3])


def falsy_root_case(case):
    """C08 / C09: the object a handler was observed on is alive as long as it exists -- also while its truth value is false
    (a collection-like HasTraits object that is empty).  Every step of a small history must deliver exactly the expected events."""
    from traits.api import HasTraits, Int, List, Instance
    violated = []

    class Leaf(HasTraits):
        value = Int

    class Group(HasTraits):
        members = List(Instance(Leaf))

        def __len__(self):
            return len(self.members)
    for start_empty in (True, False):
        x, y = Leaf(), Leaf()
        g = Group() if start_empty else Group(members=[x])
        calls = []
        g.observe(lambda e: calls.append(e), "members.items.value")
        steps = []
        if start_empty:
            steps.append(("append x to the empty group", lambda: g.members.append(x), [x]))
        steps += [("pop the last member", lambda: g.members.pop(), []), ("reassign to [y]", lambda: setattr(g, "members", [y]), [y]),
                  ("clear", lambda: g.members.clear(), []), ("extend [x, y]", lambda: g.members.extend([x, y]), [x, y])]
        for label, act, reachable in steps:
            act()
            for leaf, nm in ((x, "x"), (y, "y")):
                del calls[:]
                leaf.value += 1
                want = 1 if any(leaf is r for r in reachable) else 0
                got = len([c for c in calls if getattr(c, "name", None) == "value"])
                if got != want:
                    violated.append("%s group, after %s: %s.value changed, handler called %d time(s), expected %d" % (
                        "initially empty" if start_empty else "non-empty", label, nm, got, want))
    return dict(reproduced=bool(violated), violated=violated[:6])


def equal_targets_case(case):
    """C09: registrations made on two DISTINCT observer objects that compare equal (value-based __eq__) are two registrations:
    each is counted on its own object, survives the other object's collection, and n removals undo n registrations."""
    import gc
    from traits.api import HasTraits, Instance, Int, Str
    from traits.observation.exceptions import NotifierNotFound
    violated = []

    class Leaf(HasTraits):
        v = Int()

    class Tag(HasTraits):
        label = Str()
        leaf = Instance(Leaf)

        def __eq__(self, other):
            return type(other) is type(self) and other.label == self.label

        def __hash__(self):
            return hash(self.label)

    def pop(o, n):
        return len(o._trait(n, 2)._notifiers(True))
    for dispatch in ("same", "ui"):
        leaf = Leaf()
        a, b = Tag(label="x", leaf=leaf), Tag(label="x", leaf=leaf)
        calls = []

        def handler(event):
            calls.append(event.new)
        base = (pop(leaf, "v"), pop(a, "leaf"), pop(b, "leaf"))
        a.observe(handler, "leaf.v")
        b.observe(handler, "leaf.v")
        if pop(leaf, "v") != base[0] + 2:
            violated.append("two registrations on two equal-but-distinct objects: leaf.v holds %d new notifier(s), expected 2" % (pop(leaf, "v") - base[0]))
        leaf.v += 1
        if len(calls) != 2:
            violated.append("two registrations on two distinct objects: %d call(s) per change, expected 2" % len(calls))
        try:
            a.observe(handler, "leaf.v", remove=True)
        except NotifierNotFound as e:
            violated.append("removing a's registration raised %r" % e)
        del calls[:]
        leaf.v += 1
        if len(calls) != 1:
            violated.append("after removing a's registration b's must still fire once, got %d" % len(calls))
        try:
            a.observe(handler, "leaf.v", remove=True)
            violated.append("a second removal on a did not raise NotifierNotFound")
        except NotifierNotFound:
            pass
        except Exception as e:
            violated.append("a second removal on a raised %r" % e)
        try:
            b.observe(handler, "leaf.v", remove=True)
        except NotifierNotFound as e:
            violated.append("removing b's registration raised %r" % e)
        if (pop(leaf, "v"), pop(a, "leaf"), pop(b, "leaf")) != base:
            violated.append("populations after n adds / n removes: %r, initially %r" % ((pop(leaf, "v"), pop(a, "leaf"), pop(b, "leaf")), base))
        # one of the two objects is collected: the other's registration is unaffected
        a.observe(handler, "leaf.v")
        b.observe(handler, "leaf.v")
        del a
        gc.collect()
        del calls[:]
        try:
            leaf.v += 1
        except Exception as e:
            violated.append("change after collection raised %r" % e)
        if len(calls) != 1:
            violated.append("after the OTHER observer object was collected b's registration fires %d time(s), expected 1" % len(calls))
    return dict(reproduced=bool(violated), violated=violated[:6])


def legacy_noop_remove_case(case):
    """C16: a removal request (extended name) for a handler that was never registered changes nothing: the registered handler
    keeps tracking reachability exactly like observe, and its own removal stops all calls."""
    from traits.api import HasTraits, Instance, Int, List
    violated = []

    class Leaf(HasTraits):
        value = Int()

    class Child(HasTraits):
        leaf = Instance(Leaf)

    class Root(HasTraits):
        child = Instance(Child)
    NAME = "child.leaf.value"
    for others in (0, 1):
        legacy, obs = [], []

        def record(obj, name, old, new):
            legacy.append((id(obj), name, new))

        def second(obj, name, old, new):
            pass

        def unrelated(obj, name, old, new):
            raise AssertionError("never registered")

        def observer(event):
            obs.append((id(event.object), event.name, event.new))

        def check(step):
            if legacy != obs:
                violated.append("%s (%d other handler(s) under the name): on_trait_change saw %d call(s) %r, observe %d %r" % (
                    step, others, len(legacy), [c[1:] for c in legacy], len(obs), [c[1:] for c in obs]))
            del legacy[:], obs[:]
        leaf1 = Leaf()
        child1 = Child(leaf=leaf1)
        root = Root(child=child1)
        root.on_trait_change(record, NAME)
        if others:
            root.on_trait_change(second, NAME)
        root.observe(observer, NAME)
        leaf1.value = 1
        check("initial leaf")
        root.on_trait_change(unrelated, NAME, remove=True)          # matches nothing
        leaf1.value = 2
        check("after a removal request that matches nothing")
        leaf2 = Leaf()
        child1.leaf = leaf2
        check("reassign child.leaf")
        leaf1.value = 3
        check("detached leaf")
        leaf2.value = 4
        check("attached leaf")
        child2 = Child(leaf=Leaf())
        root.child = child2
        check("reassign root.child")
        leaf2.value = 5
        check("leaf of the detached child")
        child2.leaf.value = 6
        check("leaf of the attached child")
        root.on_trait_change(record, NAME, remove=True)
        root.observe(observer, NAME, remove=True)
        child2.leaf.value = 7
        leaf2.value = 8
        root.child = Child(leaf=Leaf())
        check("after removing the registration")
    return dict(reproduced=bool(violated), violated=violated[:8])


def trait_added_filtered_case(case):
    """C08: a filtered observer (metadata / match) followed by a further link, with traits added after hook-up: every object
    is hooked exactly once however many matching traits are added later -- a detached object stops calling the handler."""
    from traits.api import HasTraits, Instance, Int
    from traits.observation.api import match, trait, parse
    violated = []

    class Child(HasTraits):
        value = Int()

    class Parent(HasTraits):
        first = Instance(Child, watched=True)
        second = Instance(Child, watched=True)
        ignored = Instance(Child)
    for label, expr in (("match", lambda: match(lambda name, t: t.watched is True, notify=False).then(trait("value"))), ("metadata", lambda: parse("+watched:value"))):
        for n_added in (1, 2):
            p = Parent(first=Child(), second=Child(), ignored=Child())
            events = []

            def handler(event):
                events.append((id(event.object), event.name, event.new))
            e = expr()
            p.observe(handler, e)
            added = []
            for i in range(n_added):
                nm = "extra%d" % i
                p.add_trait(nm, Instance(Child, watched=True))
                setattr(p, nm, Child())
                added.append(nm)

            def poke(c, should, what):
                del events[:]
                c.value += 1
                want = 1 if should else 0
                if len(events) != want:
                    violated.append("%s, %d trait(s) added later: %s.value changed, handler called %d time(s), expected %d" % (label, n_added, what, len(events), want))
            for nm in ("first", "second") + tuple(added):
                poke(getattr(p, nm), True, nm)
            poke(p.ignored, False, "ignored")
            old_first, old_second = p.first, p.second
            p.first = Child()
            p.second = Child()
            poke(old_first, False, "detached old first")
            poke(old_second, False, "detached old second")
            poke(p.first, True, "new first")
            old_extra = getattr(p, added[0])
            setattr(p, added[0], Child())
            poke(old_extra, False, "detached old " + added[0])
            poke(getattr(p, added[0]), True, "new " + added[0])
            p.observe(handler, e, remove=True)
            for nm in ("first", "second") + tuple(added):
                poke(getattr(p, nm), False, nm + " after removal")
            poke(old_first, False, "old first after removal")
    return dict(reproduced=bool(violated), violated=violated[:8])


def maintainer_failure_case(case):
    """C12 / C08: a dependency is changed to an object on which the NESTED part of the expression cannot be hooked (no such
    trait): the change itself has happened, so the handler observing the link is told and a cached property depending on it is
    not stale -- the maintainer's failure comes after the handler, never instead of it."""
    from traits.api import HasTraits, Instance, Int, List, Property, cached_property
    violated = []

    class Leaf(HasTraits):
        value = Int()

    class Blank(HasTraits):
        pass

    class Owner(HasTraits):
        child = Instance(HasTraits)
        parts = List(Instance(HasTraits))
        total = Property(Int, observe="child.value")
        weight = Property(Int, observe="parts.items.value")

        @cached_property
        def _get_total(self):
            return self.child.value if isinstance(self.child, Leaf) else -1

        @cached_property
        def _get_weight(self):
            return sum(p.value if isinstance(p, Leaf) else 100 for p in self.parts)
    o = Owner(child=Leaf(value=3), parts=[Leaf(value=1), Leaf(value=2)])
    tot, wei = [], []
    o.observe(tot.append, "total")
    o.observe(wei.append, "weight")
    if (o.total, o.weight) != (3, 3):
        violated.append("initial values %r" % ((o.total, o.weight),))
    try:
        o.child = Blank()
        raised = None
    except Exception as e:
        raised = e
    if not isinstance(o.child, Blank):
        violated.append("the assignment did not happen")
    else:
        if o.total != -1:
            violated.append("child replaced by an object without 'value' (assignment raised %r): total reads %r, the getter computes -1" % (raised, o.total))
        if not tot:
            violated.append("child replaced (assignment raised %r): no change of 'total' was announced" % (raised,))
    try:
        o.parts.append(Blank())
        raised = None
    except Exception as e:
        raised = e
    if len(o.parts) == 3:
        if o.weight != 103:
            violated.append("an item without 'value' appended (raised %r): weight reads %r, the getter computes 103" % (raised, o.weight))
        if not wei:
            violated.append("an item without 'value' appended (raised %r): no change of 'weight' was announced" % (raised,))
    return dict(reproduced=bool(violated), violated=violated[:8])


def main():
    case = json.loads(sys.stdin.read())
    out = {"atomic": atomic_case, "reachability": reachability_case, "legacy": legacy_case, "falsy_root": falsy_root_case, "equal_targets": equal_targets_case, "legacy_noop_remove": legacy_noop_remove_case, "trait_added_filtered": trait_added_filtered_case, "maintainer_failure": maintainer_failure_case}[case["family"]](case)
    print(json.dumps(out, default=repr))


if __name__ == "__main__":
    main()
