"""Replay harness for the notification filters (C02)."""
import json
import sys


def filter_case(case):
    from traits.api import HasTraits, Any, Event
    from traits.constants import ComparisonMode
    from traits.trait_base import Uninitialized
    from traits.trait_notifiers import _change_accepted
    from traits.observation._has_traits_helpers import ctrait_prevent_event
    from traits.observation._trait_change_event import TraitChangeEvent

    class R:
        def __init__(self, truth, bool_raises):
            self.truth, self.bool_raises = truth, bool_raises

        def __bool__(self):
            if self.bool_raises:
                raise ValueError("truth value is ambiguous")
            return self.truth

    class V:
        def __init__(self, tag):
            self.tag = tag

        def _cmp(self, other, negate):
            if case["compare_raises"]:
                raise TypeError("cannot compare")
            t = case["compare_true"]
            return R(t, case["bool_raises"])

        def __ne__(self, other):
            return self._cmp(other, True)

        def __eq__(self, other):
            return self._cmp(other, False)

        __hash__ = object.__hash__
    mode = {0: ComparisonMode.none, 1: ComparisonMode.identity, 2: ComparisonMode.equality}.get(case["comparison_mode"], ComparisonMode.equality)

    class A(HasTraits):
        x = Any(comparison_mode=mode)
        e = Event()
    a = A()
    name = "x" if case["trait_is_value_trait"] else "e"
    old = Uninitialized if case["old_is_Uninitialized"] else V("old")
    new = V("new")
    eqmode = case["trait_is_value_trait"] and mode == ComparisonMode.equality
    violated = []
    which = case["function"]
    try:
        if which == "_change_accepted":
            got = _change_accepted(a, name, old, new)
            # compare_true refers to `old != new`
            expect = False if case["old_is_Uninitialized"] else (
                (case["compare_raises"] or case["bool_raises"] or case["compare_true"]) if eqmode else True)
        else:
            got = ctrait_prevent_event(TraitChangeEvent(object=a, name=name, old=old, new=new))
            # compare_true refers to `old == new`
            expect = True if case["old_is_Uninitialized"] else (
                (not case["compare_raises"] and not case["bool_raises"] and case["compare_true"]) if eqmode else False)
        if bool(got) != bool(expect):
            violated.append("%s returned %r, the statement requires %r" % (which, got, expect))
    except Exception as e:
        violated.append("%s raised %r: a raising comparison must count as a change, and the filter must not raise "
                        "(it would stop every other handler)" % (which, e))
    return dict(reproduced=bool(violated), violated=violated)


def call_notifiers_case(case):
    """C02: one assignment = one round of handler calls: trait-level handlers first, then object-level ones, in
    registration order, each once, with (object, name, old, new); handlers added or removed during the round do not change
    who is called in it; a failing handler (exceptions re-raised) stops the round; with notifications disabled nobody runs."""
    from traits.api import HasTraits, Int, push_exception_handler, pop_exception_handler
    violated = []

    class A(HasTraits):
        x = Int(0)

    def run(setup, expect, label, reraise=False):
        a = A()
        log = []
        setup(a, log)
        push_exception_handler(lambda *args: None, reraise_exceptions=reraise)
        try:
            try:
                a.x = 1
            except ZeroDivisionError:
                log.append("raised")
        finally:
            pop_exception_handler()
        if log != expect:
            violated.append("%s: handler calls %r, expected %r" % (label, log, expect))

    def basic(a, log):
        a.on_trait_change(lambda o, n, old, new: log.append(("any1", n, old, new)))            # object-level (anytrait)
        a.on_trait_change(lambda o, n, old, new: log.append(("x1", n, old, new)), "x")         # trait-level
        a.on_trait_change(lambda o, n, old, new: log.append(("x2", n, old, new)), "x")
        a.on_trait_change(lambda o, n, old, new: log.append(("any2", n, old, new)))
    run(basic, [("x1", "x", 0, 1), ("x2", "x", 0, 1), ("any1", "x", 0, 1), ("any2", "x", 0, 1)], "order and arguments")

    def mutating(a, log):
        late = lambda o, n, old, new: log.append("late")
        second = lambda o, n, old, new: log.append("second")

        def first(o, n, old, new):
            log.append("first")
            a.on_trait_change(late, "x")                    # added during the round: not called in it
            a.on_trait_change(second, "x", remove=True)     # removed during the round: still called in it
        a.on_trait_change(first, "x")
        a.on_trait_change(second, "x")
    run(mutating, ["first", "second"], "handlers added / removed during the round")

    def failing(a, log):
        def bad(o, n, old, new):
            log.append("bad")
            raise ZeroDivisionError("handler fails")
        a.on_trait_change(bad, "x")
        a.on_trait_change(lambda o, n, old, new: log.append("after"), "x")
    run(failing, ["bad", "raised"], "a failing handler stops the round (exceptions re-raised)", reraise=True)

    def disabled(a, log):
        a.on_trait_change(lambda o, n, old, new: log.append("called"), "x")
        a._trait_change_notify(False)
    run(disabled, [], "notifications disabled")
    return dict(reproduced=bool(violated), violated=violated)


def trait_set_quiet_rejection_case(case):
    """C02 / C19: a quiet trait_set whose k-th keyword is rejected must leave the object as an object that never saw the
    failure: every later real change still calls every handler exactly once (all three mechanisms)."""
    from traits.api import HasTraits, Int, Str, TraitError, Property
    violated = []

    class P(HasTraits):
        name = Str()
        age = Int()
        boom = Property(Int)
        static_calls = 0

        def _get_boom(self):
            return 0

        def _set_boom(self, v):
            raise ValueError("setter fails")

        def _age_changed(self, old, new):
            self.static_calls += 1
    for label, attempt in (("trait_setq(name, age=<invalid>)", lambda p: p.trait_setq(name="Bill", age="not a number")),
                           ("trait_set(trait_change_notify=False, age=<invalid>)", lambda p: p.trait_set(trait_change_notify=False, age=None)),
                           ("trait_setq(boom=1) with a raising property setter", lambda p: p.trait_setq(boom=1)),
                           ("trait_set(age=<invalid>) (notifying)", lambda p: p.trait_set(age="x"))):
        p = P()
        dyn, obs = [], []
        p.on_trait_change(lambda o, n, old, new: dyn.append((n, old, new)), "age")
        p.observe(lambda e: obs.append((e.name, e.old, e.new)), "age")
        try:
            attempt(p)
            violated.append("%s was accepted" % label)
        except (TraitError, ValueError):
            pass
        before = p.static_calls
        p.age = 31
        if p.static_calls != before + 1 or dyn != [("age", 0, 31)] or obs != [("age", 0, 31)]:
            violated.append("after a rejected %s, p.age = 31 called: static handler %d time(s), on_trait_change %r, observe %r (each expected once with old 0, new 31)"
                            % (label, p.static_calls - before, dyn, obs))
    return dict(reproduced=bool(violated), violated=violated)


def main():
    case = json.loads(sys.stdin.read())
    out = {"filter": filter_case, "call_notifiers": call_notifiers_case, "trait_set_quiet_rejection": trait_set_quiet_rejection_case}[case["family"]](case)
    print(json.dumps(out, default=repr))


if __name__ == "__main__":
    main()
