"""Replay harness for the notification filters (C02)."""
import json
import sys


def filter_case(case):
    from traits.api import HasTraits, Any, Event
    from traits.constants import ComparisonMode
    from traits.trait_base import Uninitialized
    from traits.trait_notifiers import _change_accepted
    from traits.observation._has_traits_helpers import ctrait_prevent_event
    from traits.observation._trait_change_event import TraitChangeEvent

    class R:
        def __init__(self, truth, bool_raises):
            self.truth, self.bool_raises = truth, bool_raises

        def __bool__(self):
            if self.bool_raises:
                raise ValueError("truth value is ambiguous")
            return self.truth

    class V:
        def __init__(self, tag):
            self.tag = tag

        def _cmp(self, other, negate):
            if case["compare_raises"]:
                raise TypeError("cannot compare")
            t = case["compare_true"]
            return R(t, case["bool_raises"])

        def __ne__(self, other):
            return self._cmp(other, True)

        def __eq__(self, other):
            return self._cmp(other, False)

        __hash__ = object.__hash__
    mode = {0: ComparisonMode.none, 1: ComparisonMode.identity, 2: ComparisonMode.equality}.get(case["comparison_mode"], ComparisonMode.equality)

    class A(HasTraits):
        x = Any(comparison_mode=mode)
        e = Event()
    a = A()
    name = "x" if case["trait_is_value_trait"] else "e"
    old = Uninitialized if case["old_is_Uninitialized"] else V("old")
    new = V("new")
    eqmode = case["trait_is_value_trait"] and mode == ComparisonMode.equality
    violated = []
    which = case["function"]
    try:
        if which == "_change_accepted":
            got = _change_accepted(a, name, old, new)
            # compare_true refers to `old != new`
            expect = False if case["old_is_Uninitialized"] else (
                (case["compare_raises"] or case["bool_raises"] or case["compare_true"]) if eqmode else True)
        else:
            got = ctrait_prevent_event(TraitChangeEvent(object=a, name=name, old=old, new=new))
            # compare_true refers to `old == new`
            expect = True if case["old_is_Uninitialized"] else (
                (not case["compare_raises"] and not case["bool_raises"] and case["compare_true"]) if eqmode else False)
        if bool(got) != bool(expect):
            violated.append("%s returned %r, the statement requires %r" % (which, got, expect))
    except Exception as e:
        violated.append("%s raised %r: a raising comparison must count as a change, and the filter must not raise "
                        "(it would stop every other handler)" % (which, e))
    return dict(reproduced=bool(violated), violated=violated)


def main():
    case = json.loads(sys.stdin.read())
    out = {"filter": filter_case}[case["family"]](case)
    print(json.dumps(out, default=repr))


if __name__ == "__main__":
    main()
