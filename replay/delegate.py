"""Replay harness for deferred traits (C11)."""
import json
import sys


def listener_case(case):
    from traits.api import HasTraits, Instance, Int, DelegatesTo
    prefix, name, cprefix = case["prefix"], case["name"], case["class_prefix"]
    # the attribute the deferring trait mirrors (documented prefix rules)
    if prefix == "":
        target = name
    elif not prefix.endswith("*"):
        target = prefix
    elif len(prefix) > 1:
        target = prefix[:-1] + name
    else:
        target = cprefix + name
    import keyword
    if not (target.isidentifier() and name.isidentifier()) or keyword.iskeyword(target) or keyword.iskeyword(name):
        return dict(reproduced=False, detail="model strings are not identifiers: %r %r" % (name, target))
    Delegate = type("D", (HasTraits,), {target: Int(1)})
    ns = {"d": Instance(Delegate), name: DelegatesTo("d", prefix=prefix)}
    if prefix == "*":
        ns["__prefix__"] = cprefix
    A = type("A", (HasTraits,), ns)
    a = A(d=Delegate())
    events = []
    a.on_trait_change(lambda obj, nm, old, new: events.append((nm, old, new)), name)
    violated = []
    if getattr(a, name) != 1:
        violated.append("deferring attribute does not read the target value")
    setattr(a.d, target, 2)
    if events != [(name, 1, 2)]:
        violated.append("changing %r on the delegate notified %r to handlers of the deferring attribute %r (expected one event 1 -> 2); "
                        "DelegatesTo('d', prefix=%r)" % (target, events, name, prefix))
    return dict(reproduced=bool(violated), violated=violated)


def main():
    case = json.loads(sys.stdin.read())
    out = {"listener": listener_case}[case["family"]](case)
    print(json.dumps(out, default=repr))


if __name__ == "__main__":
    main()
