"""Replay harness for deferred traits (C11)."""
import json
import sys


def listener_case(case):
    from traits.api import HasTraits, Instance, Int, DelegatesTo
    prefix, name, cprefix = case["prefix"], case["name"], case["class_prefix"]
    # the attribute the deferring trait mirrors (documented prefix rules)
    if prefix == "":
        target = name
    elif not prefix.endswith("*"):
        target = prefix
    elif len(prefix) > 1:
        target = prefix[:-1] + name
    else:
        target = cprefix + name
    import keyword
    if not (target.isidentifier() and name.isidentifier()) or keyword.iskeyword(target) or keyword.iskeyword(name):
        return dict(reproduced=False, detail="model strings are not identifiers: %r %r" % (name, target))
    Delegate = type("D", (HasTraits,), {target: Int(1)})
    ns = {"d": Instance(Delegate), name: DelegatesTo("d", prefix=prefix)}
    if prefix == "*":
        ns["__prefix__"] = cprefix
    A = type("A", (HasTraits,), ns)
    a = A(d=Delegate())
    events = []
    a.on_trait_change(lambda obj, nm, old, new: events.append((nm, old, new)), name)
    violated = []
    if getattr(a, name) != 1:
        violated.append("deferring attribute does not read the target value")
    setattr(a.d, target, 2)
    if events != [(name, 1, 2)]:
        violated.append("changing %r on the delegate notified %r to handlers of the deferring attribute %r (expected one event 1 -> 2); "
                        "DelegatesTo('d', prefix=%r)" % (target, events, name, prefix))
    return dict(reproduced=bool(violated), violated=violated)


def _child(prog, timeout=60):
    import subprocess
    p = subprocess.run([sys.executable, "-c", prog], capture_output=True, text=True, timeout=timeout)
    return p.returncode, p.stdout, p.stderr


def setattr_delegate_case(case):
    """C11 / C18 on assignment through a delegation chain.  Independent oracle over concrete scenarios; the model only
    selects the flavour (DelegatesTo = modify, PrototypedFrom otherwise; assignment or deletion)."""
    import sys as _sys
    from traits.api import HasTraits, Instance, Int, Any, DelegatesTo, PrototypedFrom, TraitError, push_exception_handler
    push_exception_handler(lambda *a: None, reraise_exceptions=False)
    violated = []

    class Leaf(HasTraits):
        x = Int(1)

    class Mid(HasTraits):
        d = Instance(HasTraits)
        x = DelegatesTo("d")

    class Top(HasTraits):
        d = Instance(HasTraits)
        x = DelegatesTo("d")

    # -- DelegatesTo through a chain of two hops: validated by and stored into the final delegate only
    leaf = Leaf()
    top = Top(d=Mid(d=leaf))
    try:
        top.x = "not an int"
        violated.append("DelegatesTo chain accepted a value the delegate's trait rejects")
    except TraitError:
        pass
    if (leaf.x, top.x) != (1, 1) or "x" in top.__dict__ or "x" in top.d.__dict__:
        violated.append("rejected assignment through DelegatesTo changed something: leaf.x=%r top.x=%r" % (leaf.x, top.x))
    top.x = 5
    if leaf.x != 5 or "x" in top.__dict__ or "x" in top.d.__dict__:
        violated.append("DelegatesTo chain did not store into the final delegate only (leaf.x=%r, top.__dict__=%r)" % (leaf.x, top.__dict__))

    # -- PrototypedFrom: a rejected value leaves the link in place; an accepted one breaks it; deletion restores it
    class Proto(HasTraits):
        x = Int(1)

    class Child(HasTraits):
        p = Instance(Proto)
        x = PrototypedFrom("p")
    c = Child(p=Proto())
    events = []
    c.on_trait_change(lambda o, n, old, new: events.append((old, new)), "x")
    try:
        c.x = "not an int"
        violated.append("PrototypedFrom accepted a value the prototype's trait rejects")
    except TraitError:
        pass
    c.p.x = 2
    if events != [(1, 2)] or c.x != 2:
        violated.append("after a REJECTED local assignment the PrototypedFrom link is broken: prototype change 1->2 notified %r, "
                        "child reads %r" % (events, c.x))
    del events[:]
    c.x = 7
    c.p.x = 3
    if c.x != 7 or (2, 3) in events or (7, 3) in events:
        violated.append("after a local assignment the attribute still follows / is notified of the prototype: reads %r, events %r" % (c.x, events))
    del events[:]
    del c.x
    c.p.x = 4
    if c.x != 4 or (3, 4) not in events:
        violated.append("deleting the local value did not restore the link: reads %r, events %r" % (c.x, events))

    # -- C18: a delegation cycle is reported as an error and costs no reference
    P = str(bytes([120, 121, 122]), "ascii")          # a fresh, refcounted "xyz"

    class Cyc(HasTraits):
        other = Any
        xyz = DelegatesTo("other", prefix=P)
    a, b = Cyc(), Cyc()
    a.other, b.other = b, a
    r0 = _sys.getrefcount(P)
    n = 50
    for _ in range(n):
        try:
            a.xyz = 1
            violated.append("assignment into a delegation cycle succeeded")
            break
        except Exception:
            pass
    leaked = _sys.getrefcount(P) - r0
    if leaked:
        violated.append("%d failed assignments into a delegation cycle leaked %d references to the delegate attribute name" % (n, leaked))
    # -- C18: the delegate may be computed on every access (a property / method returning a new object)
    prog = r"""
from traits.api import HasTraits, DelegatesTo, Property, Int
class D(HasTraits):
    x = Int(1)
class A(HasTraits):
    d = Property()
    def _get_d(self):
        return D()
    x = DelegatesTo('d')
a = A()
for i in range(50):
    try:
        a.x = 5
    except Exception as e:
        pass
print("RESULT survived")
"""
    import os
    os.environ["PYTHONMALLOC"] = "debug"
    rc, out, err = _child(prog)
    if rc < 0 or "RESULT survived" not in out:
        violated.append("assigning through DelegatesTo whose delegate is computed on access (a new object each time) ended the "
                        "interpreter: returncode %r (use of the delegate after its last reference was dropped)" % rc)
    return dict(reproduced=bool(violated), violated=violated)


def getattr_delegate_case(case):
    """C18: reading through a delegation cycle ends in a Python exception, not in a crash (child process)."""
    prog = r"""
from traits.api import HasTraits, DelegatesTo, Any, push_exception_handler
push_exception_handler(lambda *a: None)
class A(HasTraits):
    other = Any
    x = DelegatesTo('other')
a, b = A(), A()
a.other = b; b.other = a
try:
    a.x
    print("RESULT returned")
except BaseException as e:
    print("RESULT raised", type(e).__name__)
"""
    rc, out, err = _child(prog)
    violated = []
    if rc < 0:
        violated.append("reading a DelegatesTo attribute whose delegates form a cycle killed the interpreter with signal %d" % -rc)
    elif "RESULT raised" not in out:
        violated.append("reading through a delegation cycle did not raise: rc=%r out=%r" % (rc, out[-200:]))
    return dict(reproduced=bool(violated), violated=violated, observed=dict(returncode=rc, stdout=out[-200:]))


def base_trait_case(case):
    """C18: HasTraits.base_trait / _trait(name, -2) on a broken delegation chain raises and costs no reference."""
    import sys as _sys
    from traits.api import HasTraits, DelegatesTo, Any, Property
    violated = []

    class A(HasTraits):
        d = Any
        x = DelegatesTo("d")

    class B(HasTraits):
        d = Property()

        def _get_d(self):
            raise ZeroDivisionError("no delegate today")
        x = DelegatesTo("d", listenable=False)
    for label, obj in (("delegate is None (not a HasTraits object)", A()), ("delegate lookup raises", B())):
        t = type(obj).class_traits()["x"]
        r0 = _sys.getrefcount(t)
        n = 40
        raised = 0
        for _ in range(n):
            try:
                obj.base_trait("x")
            except Exception:
                raised += 1
        leaked = _sys.getrefcount(t) - r0
        if raised != n:
            violated.append("%s: base_trait('x') did not raise (%d of %d)" % (label, raised, n))
        if leaked:
            violated.append("%s: %d failing base_trait('x') calls leaked %d references to the trait definition" % (label, n, leaked))

    # the good path: the base trait of a chain is the final, non-delegating trait
    class Leaf(HasTraits):
        x = Any(3)
    leaf = Leaf()
    a = A(d=A(d=leaf))
    bt = a.base_trait("x")
    if bt is not leaf.trait("x") or bt.type == "delegate":
        violated.append("base_trait did not follow the chain to the non-delegating trait: %r" % (bt,))
    return dict(reproduced=bool(violated), violated=violated)


def link_notification_case(case):
    """C11 (statement): while linked, a change of the target attribute on the current delegate notifies handlers of the
    deferring attribute with the new value -- for a delegate given to the constructor, a default delegate first touched
    quietly, a computed delegate (property), and again after the link was broken by a local value and restored by del."""
    from traits.api import HasTraits, Instance, Str, DelegatesTo, PrototypedFrom, Property
    violated = []

    class Parent(HasTraits):
        name = Str("p")
        title = Str("t")
    the_parent = Parent()

    class Stored(HasTraits):
        parent = Instance(Parent)
        name = DelegatesTo("parent")
        title = PrototypedFrom("parent")

    class Default(HasTraits):
        parent = Instance(Parent, ())
        name = DelegatesTo("parent")
        title = PrototypedFrom("parent")

    class Computed(HasTraits):
        parent = Property()
        name = DelegatesTo("parent")
        title = PrototypedFrom("parent")

        def _get_parent(self):
            return the_parent

    def probe(label, obj, parent_of):
        seen = []
        obj.on_trait_change(lambda o, n, old, new: seen.append((n, new)), "name")
        obj.on_trait_change(lambda o, n, old, new: seen.append((n, new)), "title")
        parent_of(obj).name = label + "-n"
        parent_of(obj).title = label + "-t"
        if seen != [("name", label + "-n"), ("title", label + "-t")]:
            violated.append("%s: changes of the target on the delegate were reported as %r" % (label, seen))
        del seen[:]
        obj.title = "local"            # breaks the link of the prototyped attribute
        del seen[:]
        parent_of(obj).title = label + "-t2"
        if seen:
            violated.append("%s: link broken by a local value, yet a target change was reported: %r" % (label, seen))
        del obj.title                  # restores it
        del seen[:]
        parent_of(obj).title = label + "-t3"
        if seen != [("title", label + "-t3")]:
            violated.append("%s: link restored by del, target change reported as %r" % (label, seen))
    probe("stored delegate", Stored(parent=Parent()), lambda o: o.parent)
    probe("default delegate", Default(), lambda o: o.parent)
    q = Default()
    q.trait_setq(name="quiet")         # the first touch of the default delegate happens with notifications off
    probe("default delegate first touched quietly", q, lambda o: o.parent)
    probe("computed delegate", Computed(), lambda o: the_parent)
    return dict(reproduced=bool(violated), violated=violated[:6])


def main():
    case = json.loads(sys.stdin.read())
    out = {"listener": listener_case, "setattr_delegate": setattr_delegate_case,
           "getattr_delegate": getattr_delegate_case, "base_trait": base_trait_case, "link_notification": link_notification_case}[case["family"]](case)
    print(json.dumps(out, default=repr))


if __name__ == "__main__":
    main()
