"""Replay harness for the compiled validators (C03 / C01).  One JSON case on stdin, one JSON verdict on stdout."""
import json
import math
import sys


def fl(x):
    return None if x is None else float(x)


def float_range_case(case):
    from traits.api import HasTraits, Range, TraitError
    from traits.trait_types import BaseRange
    low, high, mask = fl(case["low"]), fl(case["high"]), int(case["exclude_mask"])
    value = float(case["value"])
    exl, exh = bool(mask & 1), bool(mask & 2)
    if low is None and high is None:
        return dict(reproduced=False, detail="no bound: not a float range")

    class A(HasTraits):
        x = Range(low, high, exclude_low=exl, exclude_high=exh)
    tr = A.class_traits()["x"]
    fast = tr.handler.fast_validate if hasattr(tr.handler, "fast_validate") else None
    # spec (statement): inside the range with the declared exclusivity, IEEE comparison
    spec = (low is None or (low < value if exl else low <= value)) and (high is None or (high > value if exh else high >= value))
    a = A()
    try:
        a.x = value
        got = True
        stored = a.x
    except TraitError:
        got = False
        stored = None
    # the Python-level validator of the same trait type
    try:
        BaseRange.float_validate(tr.handler, a, "x", value)
        py = True
    except TraitError:
        py = False
    violated = []
    if got != spec:
        violated.append("compiled validator %s %r for Range(low=%r, high=%r, exclude_low=%r, exclude_high=%r) but the declared domain says %s"
                        % ("accepts" if got else "rejects", value, low, high, exl, exh, "accept" if spec else "reject"))
    if got != py:
        violated.append("compiled validator and BaseRange.float_validate disagree (fast=%s, python=%s)" % (got, py))
    return dict(reproduced=bool(violated), violated=violated, observed=dict(fast_validate=repr(fast), accepted=got, stored=repr(stored)))


def main():
    case = json.loads(sys.stdin.read())
    out = {"float_range": float_range_case}[case["family"]](case)
    print(json.dumps(out, default=repr))


if __name__ == "__main__":
    main()
