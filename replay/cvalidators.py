"""Replay harness for the compiled validators (C03 / C01).  One JSON case on stdin, one JSON verdict on stdout."""
import json
import math
import sys


def fl(x):
    return None if x is None else float(x)


def float_range_case(case):
    from traits.api import HasTraits, Range, TraitError
    from traits.trait_types import BaseRange
    low, high, mask = fl(case["low"]), fl(case["high"]), int(case["exclude_mask"])
    value = float(case["value"])
    exl, exh = bool(mask & 1), bool(mask & 2)
    if low is None and high is None:
        return dict(reproduced=False, detail="no bound: not a float range")

    class A(HasTraits):
        x = Range(low, high, exclude_low=exl, exclude_high=exh)
    tr = A.class_traits()["x"]
    fast = tr.handler.fast_validate if hasattr(tr.handler, "fast_validate") else None
    # spec (statement): inside the range with the declared exclusivity, IEEE comparison
    spec = (low is None or (low < value if exl else low <= value)) and (high is None or (high > value if exh else high >= value))
    a = A()
    try:
        a.x = value
        got = True
        stored = a.x
    except TraitError:
        got = False
        stored = None
    # the Python-level validator of the same trait type
    try:
        BaseRange.float_validate(tr.handler, a, "x", value)
        py = True
    except TraitError:
        py = False
    violated = []
    if got != spec:
        violated.append("compiled validator %s %r for Range(low=%r, high=%r, exclude_low=%r, exclude_high=%r) but the declared domain says %s"
                        % ("accepts" if got else "rejects", value, low, high, exl, exh, "accept" if spec else "reject"))
    if got != py:
        violated.append("compiled validator and BaseRange.float_validate disagree (fast=%s, python=%s)" % (got, py))
    return dict(reproduced=bool(violated), violated=violated, observed=dict(fast_validate=repr(fast), accepted=got, stored=repr(stored)))


def ctrait_state_case(case):
    """C14: a trait definition object survives a pickle round trip behaving as before.  Runs in a child process because
    the failure mode is a crash of the interpreter."""
    import subprocess
    prog = r"""
import pickle, sys
from traits.api import HasTraits, Property, Int, TraitError
class A(HasTraits):
    p = Property(Int)
    def _get_p(self): return self.__dict__.get('_p', 0)
    def _set_p(self, v): self.__dict__['_p'] = v
t = A.class_traits()['p']
state = t.__getstate__()
from traits.ctrait import CTrait
t2 = CTrait(0)
t2.__setstate__(state)
assert t2.__getstate__()[:3] == state[:3], (t2.__getstate__()[:3], state[:3])
class B(HasTraits):
    pass
B.add_class_trait('q', t2)
print('ROUNDTRIP-OK', state[:3])
"""
    p = subprocess.run([sys.executable, "-c", prog], capture_output=True, text=True)
    violated = []
    if p.returncode < 0:
        violated.append("interpreter killed by signal %d while pickling a validated Property trait (CTrait.__getstate__)" % -p.returncode)
    elif p.returncode != 0 or "ROUNDTRIP-OK" not in p.stdout:
        violated.append("round trip failed: %s" % (p.stderr.strip().splitlines() or ["?"])[-1])
    return dict(reproduced=bool(violated), violated=violated, observed=dict(returncode=p.returncode, stdout=p.stdout[-200:]))


def setattr_name_refcount_case(case):
    """C18: an attribute assignment, whether it succeeds or raises, leaves the reference count of the *name* object
    unchanged.  The name is an instance of a str subclass whose __hash__ raises at the k-th call, so that the final
    PyDict_SetItem in setattr_trait fails.  Runs in a child process: the failure mode is a use-after-free."""
    import subprocess
    prog = r"""
import sys
from traits.api import HasTraits, Int
class S(str):
    countdown = None
    def __hash__(self):
        if S.countdown is not None:
            S.countdown -= 1
            if S.countdown < 0:
                raise RuntimeError("hash")
        return str.__hash__(self)
class A(HasTraits):
    x = Int
    def _x_changed(self, new):
        pass
a = A()
a.x = 1
bad = []
for k in range(0, 8):
    n = S('x')
    before = sys.getrefcount(n)
    S.countdown = k
    try:
        setattr(a, n, 5 + k)
    except Exception:
        pass
    S.countdown = None
    delta = sys.getrefcount(n) - before
    if delta != 0:
        bad.append((k, delta))
print('DELTAS', bad)
"""
    p = subprocess.run([sys.executable, "-c", prog], capture_output=True, text=True)
    violated = []
    if p.returncode < 0:
        violated.append("interpreter killed by signal %d: setattr with a str-subclass name whose __hash__ raises inside the final "
                        "PyDict_SetItem over-decrements the name (use after free)" % -p.returncode)
    elif "DELTAS []" not in p.stdout:
        violated.append("reference count of the attribute name changed: %s" % p.stdout.strip()[-200:])
    return dict(reproduced=bool(violated), violated=violated, observed=dict(returncode=p.returncode, stdout=p.stdout[-200:]))


def compound_order_case(case):
    """C03: a compound yields the result of the first accepting alternative, on the compiled path exactly as through the
    Python validate().  Probes pairs of alternatives that both accept the value (a cast before / after a plain type)."""
    from traits.api import HasTraits, Either, CFloat, CInt, CStr, Str, Float, Int, Tuple, TraitError
    probes = [((CFloat, Str), "1.5"), ((Str, CFloat), "1.5"), ((CInt, Float), 2.5), ((Float, CInt), 2.5), ((CStr, Int), 3), ((Int, CStr), 3),
              ((CInt, Str, Float), "7")]
    violated = []
    for alts, value in probes:
        class A(HasTraits):
            x = Either(*alts)
        a = A()
        a.x = value
        fast = a.x
        py = A.class_traits()["x"].handler.validate(a, "x", value)
        first = None
        for alt in alts:
            class B(HasTraits):
                y = alt
            b = B()
            try:
                b.y = value
                first = b.y
                break
            except TraitError:
                continue
        names = "Either(%s)" % ", ".join(t.__name__ for t in alts)
        if (type(fast), fast) != (type(py), py):
            violated.append("%s <- %r: compiled path stores %r, Python validate gives %r" % (names, value, fast, py))
        if (type(fast), fast) != (type(first), first):
            violated.append("%s <- %r: stores %r, the first accepting alternative alone gives %r" % (names, value, fast, first))
    return dict(reproduced=bool(violated), violated=violated)


def compound_slow_first_case(case):
    """a slow (Python-validated) alternative declared before a fast one, both accepting the value"""
    from traits.api import HasTraits, Either, CList, CStr, TraitError
    violated = []

    class A(HasTraits):
        x = Either(CList, CStr)

    class B(HasTraits):
        y = CList
    a, b = A(), B()
    a.x = "ab"
    b.y = "ab"
    if a.x != b.y:
        violated.append("Either(CList, CStr) <- 'ab' stores %r; the first accepting alternative (CList) alone stores %r" % (a.x, b.y))
    return dict(reproduced=bool(violated), violated=violated)


def dynamic_range_case(case):
    """C01: a dynamic Range (bounds named by other traits).  Independent oracle: whatever is readable after an assignment
    lies inside the bounds with the declared exclusivity and has the type of the bounds; a rejection is a TraitError naming
    the attribute and leaves the value as it was.  The model gives the exclusivity flags; the numeric inputs are a grid."""
    from traits.api import HasTraits, Int, Float, Range, TraitError
    exl, exh = bool(case.get("exclude_low")), bool(case.get("exclude_high"))
    violated = []
    for bound_trait, lo, hi, start, typ in ((Int, 0, 10, 5, int), (Int, -10, 0, -5, int), (Float, 0.0, 1.0, 0.5, float)):
        class M(HasTraits):
            low = bound_trait(lo)
            high = bound_trait(hi)
            start_ = bound_trait(start)
            x = Range(low="low", high="high", value="start_", exclude_low=exl, exclude_high=exh)
        grid = [lo, hi, lo - 1, hi + 1, lo + 0.5, hi - 0.5, lo - 0.5, hi + 0.5, lo + 0.999, hi - 0.999, lo - 0.25, hi + 0.25,
                (lo + hi) / 2, float(lo), float(hi), True, None, "3", 1e300, -1e300, float("nan"), float("inf")]
        for v in grid:
            for how in ("setattr", "trait_set", "constructor"):
                m = M()
                before = m.x
                try:
                    if how == "setattr":
                        m.x = v
                    elif how == "trait_set":
                        m.trait_set(x=v)
                    else:
                        m = M(x=v)
                except TraitError as e:
                    if "'x'" not in str(e) and " x " not in str(e):
                        violated.append("%s x=%r: TraitError does not name the attribute: %s" % (how, v, e))
                    if how != "constructor" and (m.x != before or type(m.x) is not type(before)):
                        violated.append("%s x=%r rejected but the value changed %r -> %r" % (how, v, before, m.x))
                    continue
                except Exception as e:
                    violated.append("%s x=%r raised %s instead of TraitError" % (how, v, type(e).__name__))
                    continue
                got = m.x
                inside = (lo < got if exl else lo <= got) and (hi > got if exh else hi >= got)
                if not inside or type(got) is not typ:
                    violated.append("%s x=%r accepted for %r %s x %s %r: %r (%s) is now readable" % (
                        how, v, lo, "<" if exl else "<=", "<" if exh else "<=", hi, got, type(got).__name__))
    return dict(reproduced=bool(violated), violated=violated[:12], observed=dict(count=len(violated)))


def string_state_case(case):
    """C14: String trait definitions survive pickle / deepcopy validating as before.  The model says which derived
    attributes matter (regex set or not, length bounds set or not); values are a grid."""
    import copy
    import pickle
    from traits.api import HasTraits, String, TraitError
    regex = "a+b" if case.get("regex_set") else ""
    kw = dict(minlen=2, maxlen=4) if case.get("bounded") else {}
    violated = []

    def behaviour(handler, owner):
        out = []
        for v in ["", "ab", "aab", "aaaab", "b", "xyz", "aaaaaaab", 3, None, 1.5]:
            try:
                out.append(("ok", handler.validate(owner, "s", v)))
            except TraitError:
                out.append(("TraitError",))
            except Exception as e:
                out.append((type(e).__name__, str(e)))
        return out

    class M(HasTraits):
        s = String(regex=regex, **kw)
    m = M()
    h = M.class_traits()["s"].handler
    want = behaviour(h, m)
    for how, f in (("pickle", lambda x: pickle.loads(pickle.dumps(x))), ("deepcopy", copy.deepcopy), ("copy", copy.copy)):
        try:
            h2 = f(h)
            got = behaviour(h2, m)
        except Exception as e:
            violated.append("%s of String(regex=%r, %r) raised %s: %s" % (how, regex, kw, type(e).__name__, e))
            continue
        if got != want:
            bad = [(a, b) for a, b in zip(want, got) if a != b][:3]
            violated.append("%s of String(regex=%r, %r): validation differs after the round trip: %r" % (how, regex, kw, bad))
    return dict(reproduced=bool(violated), violated=violated, observed=dict(regex=regex, bounds=kw))


GETSET = {"set_trait_dict": ("trait", "__dict__"), "set_trait_handler": ("trait", "handler"), "set_trait_post_setattr": ("trait", "post_setattr"),
          "set_trait_modify_delegate_flag": ("trait", "modify_delegate"), "set_trait_setattr_original_value_flag": ("trait", "setattr_original_value"),
          "set_trait_post_setattr_original_value_flag": ("trait", "post_setattr_original_value"),
          "set_trait_is_mapped_flag": ("trait", "is_mapped"), "_set_trait_comparison_mode": ("trait", "comparison_mode"),
          "set_has_traits_dict": ("object", "__dict__")}


def getset_delete_case(case):
    """C18: `del x.attr` on an attribute implemented by a C setter (called with value == NULL) raises or succeeds, never
    crashes.  Child process, because the failure mode is a crash."""
    import subprocess
    kind, attr = GETSET[case["setter"]]
    prog = r"""
from traits.api import HasTraits, Int
from traits.ctraits import CHasTraits, cTrait
class A(HasTraits):
    x = Int
a = A()
t = A.class_traits()['x']
kind, attr = %r, %r
try:
    if kind == 'trait':
        cTrait.__dict__[attr].__delete__(t)
    else:
        CHasTraits.__dict__[attr].__delete__(a)
    print('RESULT deleted')
except BaseException as e:
    print('RESULT raised', type(e).__name__)
""" % (kind, attr)
    p = subprocess.run([sys.executable, "-c", prog], capture_output=True, text=True, timeout=60)
    violated = []
    if p.returncode < 0:
        violated.append("del <%s>.%s killed the interpreter with signal %d (C setter %s called with value == NULL)"
                        % ("CTrait" if kind == "trait" else "HasTraits object", attr, -p.returncode, case["setter"]))
    elif "RESULT" not in p.stdout:
        violated.append("unexpected outcome: rc=%r stdout=%r stderr=%r" % (p.returncode, p.stdout[-200:], p.stderr[-300:]))
    return dict(reproduced=bool(violated), violated=violated, observed=dict(returncode=p.returncode, stdout=p.stdout[-100:]))


def set_validate_gate_case(case):
    """C18: a descriptor accepted by CTrait.set_validate can be used by the compiled validator without reading outside
    the descriptor.  Three concrete probes (child processes; the third under valgrind because the out-of-bounds read
    does not crash by itself)."""
    import subprocess
    prelude = r"""
import sys
from traits.api import HasTraits, Int
from traits.ctraits import cTrait
class A(HasTraits):
    x = Int
a = A()
t = cTrait(0)
"""
    probes = {
        "tuple-of-non-traits": prelude + r"""
try:
    t.set_validate((9, (1, 2)))
except ValueError:
    print("RESULT refused"); sys.exit(0)
try:
    t.validate(a, "x", (3, 4)); print("RESULT validated")
except Exception as e:
    print("RESULT raised", type(e).__name__)
""",
        "compound-of-non-tuples": prelude + r"""
try:
    t.set_validate((7, (1,)))
except ValueError:
    print("RESULT refused"); sys.exit(0)
try:
    t.validate(a, "x", 3); print("RESULT validated")
except Exception as e:
    print("RESULT raised", type(e).__name__)
""",
    }
    violated, observed = [], {}
    ob = case.get("obligation", "")
    want = {"tuple-of-non-traits": "validate_trait_tuple" in ob, "compound-of-non-tuples": "validate_trait_complex" in ob,
            "valgrind": "bounds:" in ob}
    if not any(want.values()):
        want = dict.fromkeys(want, True)
    for label, prog in probes.items():
        if not want[label]:
            continue
        p = subprocess.run([sys.executable, "-c", prog], capture_output=True, text=True, timeout=60)
        observed[label] = (p.returncode, p.stdout.strip()[-60:])
        if p.returncode < 0:
            violated.append("%s: descriptor accepted by set_validate, then validate() killed the interpreter with signal %d"
                            % (label, -p.returncode))
    import shutil
    if not want["valgrind"]:
        pass
    elif shutil.which("valgrind"):
        prog = prelude + r"""
for d in ((1,), (0,)):
    try:
        t.set_validate(d)
    except ValueError:
        pass
print("RESULT done")
"""
        import os
        env = dict(os.environ, PYTHONMALLOC="malloc")
        p = subprocess.run(["valgrind", "-q", sys.executable, "-c", prog], capture_output=True, text=True, timeout=600, env=env)
        err = p.stderr
        hit = False
        blocks = err.split("== \n") if False else err.split("\n==")
        cur = []
        for line in err.splitlines():
            if "Invalid read" in line or "Invalid write" in line:
                cur = [line]
            elif cur:
                cur.append(line)
                if "_trait_set_validate" in line and len(cur) <= 3:
                    hit = True
                if len(cur) > 3:
                    cur = []
        observed["valgrind"] = "invalid access in _trait_set_validate" if hit else "clean"
        if hit:
            violated.append("set_validate((1,)): valgrind reports an invalid read inside _trait_set_validate "
                            "(item 1 of a one-element descriptor is inspected)")
    else:
        observed["valgrind"] = "not available"
    return dict(reproduced=bool(violated), violated=violated, observed=observed)


def compound_pending_exception_case(case):
    """C03 (statement): a compound accepts a value iff at least one alternative accepts it and yields the result of the first
    accepting alternative, identical to validating against that alternative alone.  Probe: the first alternative's check
    raises (a metaclass __instancecheck__), so that alternative alone rejects the value; the second accepts it.  Each
    assignment runs in its own child process: a pending exception left behind can surface anywhere later."""
    import subprocess
    prog = r"""
import sys
from traits.api import HasTraits, Either, Instance, Int
class Meta(type):
    def __instancecheck__(cls, inst):
        raise ZeroDivisionError("instancecheck fails")
class K(metaclass=Meta):
    pass
class A(HasTraits):
    x = Either(Instance(K), Int)
    first = Instance(K)
    second = Int
a = A()
name = sys.argv[1]
try:
    setattr(a, name, 3)
    out = "stored %r" % (a.__dict__.get(name),)
except BaseException as e:
    out = "raised %s (attribute now %r)" % (type(e).__name__, a.__dict__.get(name, "<unset>"))
print("RESULT", out)
"""
    def assign(name):
        p = subprocess.run([sys.executable, "-c", prog, name], capture_output=True, text=True, timeout=60)
        lines = [l for l in p.stdout.splitlines() if l.startswith("RESULT ")]
        return lines[-1][7:] if lines else "no result (rc=%r, stderr=%r)" % (p.returncode, p.stderr[-200:])
    alone = [assign("first"), assign("second")]
    accepted = [r for r in alone if r.startswith("stored")]
    expected = accepted[0] if accepted else "raised TraitError (attribute now '<unset>')"
    got = assign("x")
    violated = []
    if got != expected:
        violated.append("Either(Instance(K), Int) <- 3 with K.__instancecheck__ raising: the alternatives alone give %r, so the compound "
                        "should give %r, but it gives %r" % (alone, expected, got))
    return dict(reproduced=bool(violated), violated=violated, observed=dict(compound=got, alternatives_alone=alone))


def setstate_case(case):
    """C18: CTrait.__setstate__ with a state tuple that is not one written by __getstate__.  (a) parsing fails after object
    fields were written: the trait then holds references it never took -- measured as an over-release once the trait is
    destroyed; (b) a handler index outside its table.  Child processes."""
    import subprocess
    progs = {
        "borrowed-fields-after-a-failed-parse": r"""
import sys, gc
from traits.ctraits import cTrait
class Marker: pass
m = Marker()
keep = [m] * 8                      # enough real references that the over-release cannot free the object
r0 = sys.getrefcount(m)
t = cTrait(0)
try:
    t.__setstate__((0, 0, 0, m, 0, m, "not an int", None, 0, None, None, 0, None, None, {}))
    print("RESULT accepted")
except TypeError:
    del t
    gc.collect()
    print("RESULT refcount-delta", sys.getrefcount(m) - r0)
""",
        "index-outside-the-handler-table": r"""
from traits.ctraits import cTrait
t = cTrait(0)
try:
    t.__setstate__((0, 0, 0, None, 100000000, None, 0, None, 0, None, None, 0, None, None, {}))
    print("RESULT accepted")
except Exception as e:
    print("RESULT raised", type(e).__name__)
""",
    }
    violated, observed = [], {}
    for label, prog in progs.items():
        p = subprocess.run([sys.executable, "-c", prog], capture_output=True, text=True, timeout=60)
        out = [l for l in p.stdout.splitlines() if l.startswith("RESULT")]
        observed[label] = (p.returncode, out[-1] if out else "")
        if p.returncode < 0:
            violated.append("%s: interpreter killed by signal %d" % (label, -p.returncode))
        elif out and out[-1].startswith("RESULT refcount-delta") and int(out[-1].split()[-1]) != 0:
            violated.append("%s: after the failed __setstate__ and the destruction of the trait the object's reference count is off by %s"
                            % (label, out[-1].split()[-1]))
        elif out and out[-1] == "RESULT accepted" and label.startswith("index"):
            violated.append("%s: a state with validate index 100000000 was accepted (handler read from outside validate_handlers)" % label)
    return dict(reproduced=bool(violated), violated=violated, observed=observed)


def tuple_refcount_case(case):
    """C18 / C01: Tuple(...) validation is reference neutral and stores a tuple of the declared shape, for the four
    combinations of (item coerced or not) x (item with or without its own validator)."""
    from traits.api import HasTraits, Tuple, Float, Any, Int, TraitError
    violated = []

    class P:
        pass

    class A(HasTraits):
        t = Tuple(Float, Any)
        u = Tuple(Float, Any, Int)
        v = Tuple(Any, Float)
    payload = P()
    spare = [payload] * 32            # keeps the object alive whatever the validator does to its count
    for name, value, ok in (("t", (1, payload), True), ("t", (2.5, payload), True), ("u", (1, payload, "no int"), False),
                            ("u", (1, payload, 3), True), ("v", (payload, 1), True)):
        a = A()
        r0 = sys.getrefcount(payload)
        try:
            setattr(a, name, value)
            accepted = True
        except TraitError:
            accepted = False
        if accepted != ok:
            violated.append("%s = %r: accepted=%r, expected %r" % (name, value, accepted, ok))
        if accepted:
            stored = getattr(a, name)
            if len(stored) != len(value) or stored[value.index(payload)] is not payload:
                violated.append("%s = %r stored %r" % (name, value, stored))
            del stored
        del a
        delta = sys.getrefcount(payload) - r0
        if delta != 0:
            violated.append("%s = %r (%s): reference count of the validator-less item is off by %+d afterwards"
                            % (name, value, "accepted" if accepted else "rejected", delta))
    return dict(reproduced=bool(violated), violated=violated)


def main():
    case = json.loads(sys.stdin.read())
    out = {"float_range": float_range_case, "ctrait_state": ctrait_state_case,
           "setattr_name_refcount": setattr_name_refcount_case,
           "compound_order": compound_order_case, "compound_slow_first": compound_slow_first_case, "dynamic_range": dynamic_range_case,
           "string_state": string_state_case, "getset_delete": getset_delete_case,
           "set_validate_gate": set_validate_gate_case,
           "compound_pending_exception": compound_pending_exception_case,
           "setstate": setstate_case, "tuple_refcount": tuple_refcount_case}[case["family"]](case)
    print(json.dumps(out, default=repr))


if __name__ == "__main__":
    main()
