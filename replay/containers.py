"""Concrete oracle + replay harness for the container properties (C04-C07, C19).
Runs under /venv/bin/python against the tree on PYTHONPATH.  Reads one JSON case on stdin, runs the
real operation, evaluates the clauses of the property statement concretely, prints one JSON line:
{"reproduced": bool, "violated": [clause...], "observed": ...}.
"""
import copy
import json
import sys


def mk_validator(tab, exc_cls_name="TraitError"):
    from traits.trait_errors import TraitError
    ok = {int(k): v for k, v in (tab.get("ok") or {}).items()}
    val = {int(k): v for k, v in (tab.get("val") or {}).items()}
    exc = {"TraitError": TraitError, "ValueError": ValueError, "RuntimeError": RuntimeError}[tab.get("exc", exc_cls_name)]

    def validator(x):
        if not ok.get(x, True):
            raise exc("rejected %r" % (x,))
        return val.get(x, x)
    return validator, exc


def to_key(k):
    if isinstance(k, dict) and "slice" in k:
        return slice(*k["slice"])
    return k


def replay_event(before, ev):
    """the statement's replay: replace, in the snapshot, the removed items at index by the added items"""
    index, removed, added = ev
    lst = list(before)
    if isinstance(index, slice):
        if added:
            lst[index] = added
        else:
            del lst[index]
    else:
        lst[index:index + len(removed)] = added
    return lst


def normal_form(before, ev):
    index, removed, added = ev
    n = len(before)
    if isinstance(index, slice):
        a, b, c = index.start, index.stop, index.step
        if None in (a, b, c):
            return False
        return 0 <= a < b <= n and c >= 2 and before[index] == removed
    return isinstance(index, int) and 0 <= index <= n and before[index:index + len(removed)] == removed


def list_case(case):
    from traits.trait_list_object import TraitList
    validator, exc = mk_validator(case.get("validator", {}))
    items = list(case["items"])
    events = []
    tl = TraitList(items, item_validator=lambda x: x)
    tl.item_validator = validator
    tl.notifiers.append(lambda l, i, r, a: events.append(((i, list(r), list(a)), list(l))))
    ref = list(items)
    op, args = case["op"], case.get("args", {})
    violated = []

    def call(target, validated):
        if op == "__setitem__":
            target[to_key(args["key"])] = validated
        elif op == "__delitem__":
            del target[to_key(args["key"])]
        elif op == "append":
            target.append(validated)
        elif op == "extend":
            target.extend(validated)
        elif op == "__iadd__":
            target += validated
        elif op == "__imul__":
            target *= args["value"]
        elif op == "insert":
            target.insert(args["index"], validated)
        elif op == "pop":
            return target.pop(*([args["index"]] if "index" in args else []))
        elif op == "remove":
            target.remove(args["value"])
        elif op == "clear":
            target.clear()
        elif op == "reverse":
            target.reverse()
        elif op == "sort":
            target.sort(reverse=bool(args.get("reverse", False)))
        else:
            raise SystemExit("unknown op " + op)

    raw = args.get("value", args.get("object", args.get("iterable")))
    # reference: validate first (first failure propagates, nothing changes), then the builtin operation
    ref_exc = None
    ref_val_exc = None
    try:
        if op in ("extend", "__iadd__") or (op == "__setitem__" and isinstance(to_key(args["key"]), slice)):
            validated = [validator(x) for x in raw]
        elif op in ("append", "insert", "__setitem__"):
            validated = validator(raw)
        else:
            validated = raw
    except exc as e:
        ref_val_exc = type(e)
        validated = None
    ref_res = None
    try:
        probe = list(ref)
        if ref_val_exc is None:
            ref_res = call(probe, validated)
            ref = probe
        else:
            # would the builtin operation itself fail on these arguments?  (either failure is acceptable then)
            try:
                call(probe, copy.copy(raw) if not isinstance(raw, list) else list(raw))
            except Exception as e2:
                ref_exc = type(e2)
    except Exception as e:
        ref_exc = type(e)
    got_exc, got_res = None, None
    try:
        got_res = call(tl, raw if op not in ("__imul__",) else None) if op not in ("remove",) else call(tl, None)
    except Exception as e:
        got_exc = type(e)
    after = list(tl)
    if got_exc is None:
        if ref_val_exc is not None or ref_exc is not None:
            violated.append("accepted an operation that list/validator rejects (%s)" % (ref_val_exc or ref_exc).__name__)
        else:
            if after != ref:
                violated.append("contents differ from list: %r vs %r" % (after, ref))
            if op == "pop" and got_res != ref_res:
                violated.append("result differs from list")
        if len(events) > 1:
            violated.append("more than one event")
        if len(events) == 0 and after != items:
            violated.append("contents changed without an event")
        for (ev, at) in events:
            if at != after:
                violated.append("event emitted before the mutation was complete")
            if not normal_form(items, ev):
                violated.append("event not in normal form / removed are not the items at index: %r" % (ev,))
            try:
                if replay_event(items, ev) != after:
                    violated.append("replay law: %r on %r gives %r, contents are %r" % (ev, items, replay_event(items, ev), after))
            except Exception as e:
                violated.append("replay raised %r for %r" % (e, ev))
    else:
        if got_exc not in (ref_val_exc, ref_exc):
            violated.append("raised %s where list/validator give %s" % (got_exc.__name__, (ref_val_exc or ref_exc).__name__ if (ref_val_exc or ref_exc) else "no exception"))
        if after != items:
            violated.append("failing operation changed the contents: %r -> %r" % (items, after))
        if events:
            violated.append("failing operation notified")
    return dict(reproduced=bool(violated), violated=violated,
                observed=dict(after=after, events=[repr(e[0]) for e in events], exc=got_exc.__name__ if got_exc else None))


def dict_case(case):
    from traits.trait_dict_object import TraitDict
    kv, kexc = mk_validator(case.get("key_validator", {}))
    vv, vexc = mk_validator(case.get("value_validator", {}))
    contents = {k: v for k, v in case["contents"]}
    events = []
    td = TraitDict(contents)
    td.key_validator, td.value_validator = kv, vv
    td.notifiers.append(lambda d, r, a, c: events.append(((dict(r), dict(a), dict(c)), dict(d))))
    ref = dict(contents)
    op, args = case["op"], case.get("args", {})
    violated = []
    UNSET = object()
    pairs = [tuple(p) for p in args.get("pairs", [])]

    def arg_for(validated):
        if args.get("mapping"):
            return dict(validated)
        return list(validated)

    ref_exc, ref_res = None, None
    try:
        probe = dict(ref)
        if op == "__setitem__":
            probe[kv(args["key"])] = vv(args["value"])
        elif op == "__delitem__":
            del probe[args["key"]]
        elif op == "clear":
            probe.clear()
        elif op == "pop":
            ref_res = probe.pop(args["key"], *([args["default"]] if "default" in args else []))
        elif op == "popitem":
            ref_res = "popitem"
            probe.popitem()
        elif op == "setdefault":
            if args["key"] in probe:          # documented reading: raw containment first
                ref_res = probe[args["key"]]
            else:
                val = vv(args.get("value"))
                probe[kv(args["key"])] = val
                ref_res = val
        elif op in ("update", "__ior__"):
            probe.update([(kv(k), vv(v)) for k, v in pairs])
        ref = probe
    except Exception as e:
        ref_exc = type(e)
    got_exc, got_res = None, None
    try:
        if op == "__setitem__":
            td[args["key"]] = args["value"]
        elif op == "__delitem__":
            del td[args["key"]]
        elif op == "clear":
            td.clear()
        elif op == "pop":
            got_res = td.pop(args["key"], *([args["default"]] if "default" in args else []))
        elif op == "popitem":
            got_res = td.popitem()
        elif op == "setdefault":
            got_res = td.setdefault(args["key"], *([args["value"]] if "value" in args else []))
        elif op == "update":
            td.update(arg_for(pairs))
        elif op == "__ior__":
            td |= arg_for(pairs)
    except Exception as e:
        got_exc = type(e)
    after = dict(td)
    if got_exc is None:
        if ref_exc is not None:
            violated.append("accepted an operation that dict/validators reject (%s)" % ref_exc.__name__)
        elif op == "popitem":
            k, v = got_res
            if contents.get(k, UNSET) != v or after != {a: b for a, b in contents.items() if a != k}:
                violated.append("popitem result/contents inconsistent")
        else:
            if after != ref:
                violated.append("contents differ from dict: %r vs %r" % (after, ref))
            if op in ("pop", "setdefault") and got_res != ref_res:
                violated.append("result differs from dict: %r vs %r" % (got_res, ref_res))
        if len(events) > 1:
            violated.append("more than one event")
        if not events and after != contents:
            violated.append("contents changed without an event")
        for ((r, a, c), at) in events:
            if at != after:
                violated.append("event emitted before the mutation was complete")
            if not (r or a or c):
                violated.append("event with all three parts empty")
            for k, v in a.items():
                if k in contents or after.get(k, UNSET) != v:
                    violated.append("added key %r was present before or does not hold the given value" % (k,))
            for k, v in c.items():
                if contents.get(k, UNSET) != v or k not in after:
                    violated.append("changed key %r did not hold the given old value" % (k,))
            for k, v in r.items():
                if contents.get(k, UNSET) != v or k in after:
                    violated.append("removed key %r did not hold the given value or is still present" % (k,))
            recon = {k: v for k, v in after.items() if k not in a}
            recon.update(c)
            recon.update(r)
            if recon != contents:
                violated.append("previous contents not reconstructible: %r vs %r" % (recon, contents))
    else:
        if got_exc is not ref_exc:
            violated.append("raised %s where dict/validators give %s" % (got_exc.__name__, ref_exc.__name__ if ref_exc else "no exception"))
        if after != contents:
            violated.append("failing operation changed the contents: %r -> %r" % (contents, after))
        if events:
            violated.append("failing operation notified")
    return dict(reproduced=bool(violated), violated=violated,
                observed=dict(after=sorted(after.items()), events=[repr(e[0]) for e in events],
                              exc=got_exc.__name__ if got_exc else None))


def dict_event_factory_case(case):
    from traits.observation._dict_change_event import dict_event_factory
    from traits.trait_dict_object import TraitDict
    contents, removed, added, changed = [dict(map(tuple, case[n])) for n in ("contents", "removed", "added", "changed")]
    td = TraitDict(contents)
    r0, a0, c0, m0 = dict(removed), dict(added), dict(changed), dict(contents)
    violated = []
    try:
        ev = dict_event_factory(td, removed, added, changed)
    except Exception as e:
        return dict(reproduced=True, violated=["raised %r" % (e,)])
    exp_removed = dict(r0)
    exp_removed.update(c0)
    exp_added = dict(a0)
    exp_added.update({k: m0[k] for k in c0})
    if ev.removed != exp_removed:
        violated.append("event.removed is not removed + old values of changed keys")
    if ev.added != exp_added:
        violated.append("event.added is not added + new values of changed keys")
    for nm, now, before in (("removed", removed, r0), ("added", added, a0), ("changed", changed, c0), ("trait_dict", dict(td), m0)):
        if now != before:
            violated.append("argument `%s` was modified: %r -> %r (it is shared with every other notifier of the emission)" % (nm, before, now))
    return dict(reproduced=bool(violated), violated=violated)


def set_case(case):
    from traits.trait_set_object import TraitSet
    validator, exc = mk_validator(case.get("validator", {}))
    members = set(case["members"])
    events = []
    ts = TraitSet(members)
    ts.item_validator = validator
    ts.notifiers.append(lambda s, r, a: events.append(((set(r), set(a)), set(s))))
    op, args = case["op"], case.get("args", {})
    mk_operand = frozenset if case.get("ov") == "frozenset-operand" else set
    operands = [mk_operand(o) for o in args.get("operands", [])]
    violated = []
    ident = all(validator(x) == x for o in operands for x in o if case.get("validator", {}).get("ok", {}).get(str(x), True))

    def validated(o):
        return {validator(x) for x in o}
    ref, ref_exc, ref_res = set(members), None, None
    try:
        if op == "add":
            ref.add(validator(args["value"]))
        elif op == "discard":
            ref.discard(args["value"])
        elif op == "remove":
            ref.remove(args["value"])
        elif op == "pop":
            ref_res = "pop"
            ref.pop()
        elif op == "clear":
            ref.clear()
        elif op in ("update", "__ior__"):
            ref.update(*[validated(o) for o in operands])
        elif op in ("difference_update", "__isub__"):
            ref.difference_update(*operands)
        elif op in ("intersection_update", "__iand__"):
            ref.intersection_update(*operands)
        elif op in ("symmetric_difference_update", "__ixor__"):
            (o,) = operands
            validated(o - members)          # items to be added must validate
            ref = (members ^ o) if ident else None     # result determined only for non-coercing validators
    except Exception as e:
        ref_exc = type(e)
    got_exc, got_res = None, None
    try:
        if op in ("add", "discard", "remove"):
            getattr(ts, op)(args["value"])
        elif op == "pop":
            got_res = ts.pop()
        elif op == "clear":
            ts.clear()
        elif op in ("update", "difference_update", "intersection_update"):
            getattr(ts, op)(*operands)
        elif op == "symmetric_difference_update":
            ts.symmetric_difference_update(operands[0])
        elif op == "__ior__":
            ts |= operands[0]
        elif op == "__iand__":
            ts &= operands[0]
        elif op == "__isub__":
            ts -= operands[0]
        elif op == "__ixor__":
            ts ^= operands[0]
    except Exception as e:
        got_exc = type(e)
    after = set(ts)
    if got_exc is None:
        if ref_exc is not None:
            violated.append("accepted an operation that set/validator rejects (%s)" % ref_exc.__name__)
        elif op == "pop":
            if got_res not in members or after != members - {got_res}:
                violated.append("pop result/contents inconsistent")
        elif ref is not None and after != ref:
            violated.append("contents differ from set: %r vs %r" % (sorted(after), sorted(ref)))
        if len(events) > 1:
            violated.append("more than one event")
        if not events and after != members:
            violated.append("contents changed without an event")
        for ((r, a), at) in events:
            if after == members:
                violated.append("event although nothing changed")
            if at != after:
                violated.append("event emitted before the mutation was complete")
            if not r <= members:
                violated.append("removed is not a subset of the previous contents")
            if a & members:
                violated.append("added is not disjoint from the previous contents")
            if (members - r) | a != after:
                violated.append("(previous - removed) | added is not the new contents")
    else:
        if got_exc is not ref_exc:
            violated.append("raised %s where set/validator give %s" % (got_exc.__name__, ref_exc.__name__ if ref_exc else "no exception"))
        if after != members:
            violated.append("failing operation changed the contents: %r -> %r" % (sorted(members), sorted(after)))
        if events:
            violated.append("failing operation notified")
    return dict(reproduced=bool(violated), violated=violated,
                observed=dict(after=sorted(after), events=[repr(e[0]) for e in events], exc=got_exc.__name__ if got_exc else None))


def set_copy_case(case):
    """C07: copy, deepcopy and pickle of a TraitSet yield an equal set that still validates."""
    import pickle
    from traits.trait_set_object import TraitSet
    from traits.trait_errors import TraitError
    violated = []
    ts = TraitSet(case["members"], item_validator=_int_only)
    for name, fn in (("copy.copy", copy.copy), ("copy.deepcopy", copy.deepcopy),
                     ("pickle", lambda s: pickle.loads(pickle.dumps(s)))):
        try:
            c = fn(ts)
        except Exception as e:
            violated.append("%s raised %r" % (name, e))
            continue
        if not isinstance(c, TraitSet) or set(c) != set(ts):
            violated.append("%s: result is not an equal TraitSet" % name)
            continue
        try:
            c.add("not an int")
            violated.append("%s: the copy no longer validates" % name)
        except TraitError:
            pass
    return dict(reproduced=bool(violated), violated=violated)


def _int_only(x):
    from traits.trait_errors import TraitError
    if not isinstance(x, int):
        raise TraitError("int required")
    return x


# ---------------------------------------------------------------------------------------------------------------------
# random probes: the concrete oracle of a container contract whose function left the verifier's subset (the loop was
# rewritten, a new construct appeared).  Random operations against the builtin model on validated items; every clause of
# the statement (C05 / C06 / C07 + failure atomicity) is evaluated.  Only a failing input found here counts.
# ---------------------------------------------------------------------------------------------------------------------
class _Unhashable(list):
    pass


def _dict_reconstruct(after, ev):
    removed, added, changed = ev
    before = dict(after)
    for k in added:
        before.pop(k, None)
    before.update(changed)
    before.update(removed)
    return before


def _validated_pairs(pairs, kv, vv):
    """item by item, in order: the first item that fails (validation or hashing) decides the exception"""
    out = []
    for k, v in pairs:
        kk, w = kv(k), vv(v)
        hash(kk)
        out.append((kk, w))
    return out


def dict_probe_case(case):
    import random
    from traits.trait_dict_object import TraitDict
    from traits.trait_errors import TraitError
    rnd = random.Random(int(case.get("seed", 0)))
    violated = []

    def kv(k):
        if k == "bad":
            raise TraitError("bad key")
        return str(k) if mode == "coerce" else k

    def vv(v):
        if v == -1:
            raise TraitError("bad value")
        return int(v) if (mode == "coerce" and isinstance(v, str)) else v          # a converting value trait (CInt)
    for trial in range(int(case.get("trials", 400))):
        mode = rnd.choice(["coerce", "identity"])
        start = {kv(k): rnd.randint(0, 5) for k in rnd.sample([1, 2, "1", "a", "b"], rnd.randint(0, 3))}
        td = TraitDict(dict(start), key_validator=kv, value_validator=vv)
        events = []
        td.notifiers.append(lambda d, removed, added, changed: events.append((dict(removed), dict(added), dict(changed))))
        model = dict(start)
        keys = [1, 2, "1", "a", "b", "c", "bad"]

        def pairs(n):
            return [(rnd.choice(keys), rnd.choice([0, 1, 2, 3, -1, 7, "5", "8"])) for _ in range(n)]
        op = rnd.choice(["update-map", "update-pairs", "update-pairs", "update-unhashable", "ior", "setitem", "delitem", "pop", "pop-default", "popitem", "setdefault", "clear"])
        desc = None
        try:
            ref_exc = got_exc = None
            ref_res = got_res = None
            before = dict(model)
            if op in ("update-map", "ior"):
                arg = dict(pairs(rnd.randint(0, 3)))
                desc = "%s(%r)" % (op, arg)
                try:
                    model.update(_validated_pairs(arg.items(), kv, vv))
                except Exception as e:
                    ref_exc, model = type(e), dict(before)
                try:
                    if op == "ior":
                        td |= arg
                    else:
                        td.update(arg)
                except Exception as e:
                    got_exc = type(e)
            elif op in ("update-pairs", "update-unhashable"):
                arg = pairs(rnd.randint(0, 4))
                if op == "update-unhashable":
                    arg.insert(rnd.randint(0, len(arg)), (_Unhashable(), 3))
                desc = "update(%r)" % (arg,)
                try:
                    model.update(_validated_pairs(arg, kv, vv))
                except Exception as e:
                    ref_exc, model = type(e), dict(before)
                try:
                    td.update(arg)
                except Exception as e:
                    got_exc = type(e)
            elif op == "setitem":
                k, v = rnd.choice(keys), rnd.choice([0, 1, -1, 9, 1.0, True, 0.0])
                desc = "d[%r] = %r" % (k, v)
                try:
                    model[kv(k)] = vv(v)
                except Exception as e:
                    ref_exc, model = type(e), dict(before)
                try:
                    td[k] = v
                except Exception as e:
                    got_exc = type(e)
            elif op in ("delitem", "pop", "pop-default"):
                k = rnd.choice(["1", "a", "b", "zz", 1])
                desc = "%s %r" % (op, k)
                try:
                    if op == "delitem":
                        del model[k]
                    elif op == "pop":
                        ref_res = model.pop(k)
                    else:
                        ref_res = model.pop(k, "dflt")
                except Exception as e:
                    ref_exc = type(e)
                try:
                    if op == "delitem":
                        del td[k]
                    elif op == "pop":
                        got_res = td.pop(k)
                    else:
                        got_res = td.pop(k, "dflt")
                except Exception as e:
                    got_exc = type(e)
            elif op == "popitem":
                desc = "popitem()"
                try:
                    ref_res = model.popitem()
                except Exception as e:
                    ref_exc = type(e)
                try:
                    got_res = td.popitem()
                except Exception as e:
                    got_exc = type(e)
            elif op == "setdefault":
                k, v = rnd.choice(["1", "a", "q"]), rnd.choice([0, 4, -1])
                desc = "setdefault(%r, %r)" % (k, v)
                try:
                    if k in model:
                        ref_res = model[k]
                    else:
                        ref_res = model.setdefault(kv(k), vv(v))
                except Exception as e:
                    ref_exc, model = type(e), dict(before)
                try:
                    got_res = td.setdefault(k, v)
                except Exception as e:
                    got_exc = type(e)
            else:
                desc = "clear()"
                model.clear()
                td.clear()
            after = dict(td)
            w = "%s on %r (%s keys)" % (desc, before, mode)
            if got_exc is not ref_exc:
                violated.append("%s: raised %s, dict on validated items %s" % (w, got_exc and got_exc.__name__, ref_exc and ref_exc.__name__))
            elif got_exc is not None:
                if after != before:
                    violated.append("%s: failing operation changed the contents to %r" % (w, after))
                if events:
                    violated.append("%s: failing operation notified %r" % (w, events))
            else:
                if after != model:
                    violated.append("%s: contents %r, dict gives %r" % (w, after, model))
                if any(type(after[k_]) is not type(model[k_]) for k_ in after if k_ in model):
                    # equal is not enough: the dict on validated items holds the very object that was assigned
                    violated.append("%s: holds %r, dict holds %r (an equal value of another type: the assigned object was not stored)" % (w, after, model))
                if got_res != ref_res:
                    violated.append("%s: returned %r, dict returns %r" % (w, got_res, ref_res))
                if len(events) > 1:
                    violated.append("%s: %d events" % (w, len(events)))
                if after != before and not events:
                    violated.append("%s: contents changed without an event" % w)
                for ev in events:
                    removed, added, changed = ev
                    if not (removed or added or changed):
                        violated.append("%s: event with three empty parts" % w)
                    if _dict_reconstruct(after, ev) != before:
                        violated.append("%s: previous contents not reconstructible from %r" % (w, ev))
                    if any(k in before for k in added) or any(after.get(k, object()) != v for k, v in added.items()):
                        violated.append("%s: added %r: keys must be new and hold the given values" % (w, added))
                    if any(before.get(k, object()) != v for k, v in changed.items()):
                        violated.append("%s: changed %r does not hold the previous values" % (w, changed))
                    if any(before.get(k, object()) != v or k in after for k, v in removed.items()):
                        violated.append("%s: removed %r" % (w, removed))
        except Exception as e:       # harness trouble is not a reproduction
            return dict(reproduced=False, detail="harness error %r on %s" % (e, desc))
        if len(violated) >= 4:
            break
    return dict(reproduced=bool(violated), violated=violated[:4])


def list_probe_case(case):
    import random
    from fractions import Fraction
    from traits.trait_list_object import TraitList
    from traits.trait_errors import TraitError
    rnd = random.Random(int(case.get("seed", 0)))
    violated = []

    def iv(x):
        if x == -1:
            raise TraitError("bad item")
        return x
    for trial in range(int(case.get("trials", 600))):
        start = [rnd.randint(0, 9) for _ in range(rnd.randint(0, 6))]
        plain = rnd.random() < 0.3            # a bare TraitList: no item validator given
        tl = TraitList(list(start)) if plain else TraitList(list(start), item_validator=iv)
        events = []
        tl.notifiers.append(lambda l, i, r, a: events.append((i, list(r), list(a))))
        model = list(start)
        n = len(start)

        def idx():
            return rnd.randint(-n - 2, n + 2)

        def sl():
            return slice(rnd.choice([None, idx()]), rnd.choice([None, idx()]), rnd.choice([None, 1, 2, 3, -1, -2]))
        items = lambda m: [rnd.choice([0, 5, 7, -1]) if rnd.random() < 0.15 else rnd.randint(10, 19) for _ in range(m)]
        op = rnd.choice(["setint", "setslice", "delint", "delslice", "append", "extend", "iadd", "imul", "imul-odd", "insert", "pop", "remove", "clear", "reverse", "sort",
                         "extend-self", "iadd-self", "setslice-self"])
        arg = None
        if op == "setint":
            arg = (idx(), items(1)[0]); f = lambda L, v=None: L.__setitem__(arg[0], (v or (lambda x: x))(arg[1]))
        elif op == "setslice":
            k = sl(); arg = (k, items(rnd.randint(0, 4))); f = lambda L, v=None: L.__setitem__(arg[0], [(v or (lambda x: x))(x) for x in arg[1]])
        elif op == "delint":
            arg = idx(); f = lambda L, v=None: L.__delitem__(arg)
        elif op == "delslice":
            arg = sl(); f = lambda L, v=None: L.__delitem__(arg)
        elif op == "append":
            arg = items(1)[0]; f = lambda L, v=None: L.append((v or (lambda x: x))(arg))
        elif op in ("extend", "iadd"):
            arg = items(rnd.randint(0, 3)); f = lambda L, v=None: L.extend([(v or (lambda x: x))(x) for x in arg])
        elif op == "extend-self":
            f = lambda L, v=None: L.extend(L)             # the argument is the list itself: list extends by a snapshot of it
        elif op == "iadd-self":
            f = lambda L, v=None: L.__iadd__(L)
        elif op == "setslice-self":
            arg = sl(); f = lambda L, v=None: L.__setitem__(arg, L)
        elif op == "imul":
            arg = rnd.randint(-1, 3); f = lambda L, v=None: L.__imul__(arg)
        elif op == "imul-odd":
            arg = rnd.choice([0.5, 0.0, -1.5, 2.5, Fraction(1, 2), "5", None]); f = lambda L, v=None: L.__imul__(arg)
        elif op == "insert":
            arg = (idx(), items(1)[0]); f = lambda L, v=None: L.insert(arg[0], (v or (lambda x: x))(arg[1]))
        elif op == "pop":
            arg = rnd.choice([None, idx()]); f = lambda L, v=None: L.pop() if arg is None else L.pop(arg)
        elif op == "remove":
            arg = rnd.randint(0, 9); f = lambda L, v=None: L.remove(arg)
        elif op == "clear":
            f = lambda L, v=None: L.clear()
        elif op == "reverse":
            f = lambda L, v=None: L.reverse()
        else:
            f = lambda L, v=None: L.sort()
        ref_exc = got_exc = None
        try:
            ref_res = f(model, (lambda x: x) if plain else iv)
        except Exception as e:
            ref_exc, model = type(e), list(start)
        try:
            got_res = f(tl)
        except Exception as e:
            got_exc = type(e)
        after = list(tl)
        w = "%s %r on %r" % (op, arg, start)
        if got_exc is not ref_exc:
            violated.append("%s: raised %s, list on validated items %s" % (w, got_exc and got_exc.__name__, ref_exc and ref_exc.__name__))
        elif got_exc is not None:
            if after != start or events:
                violated.append("%s: failing operation left %r, events %r" % (w, after, events))
        else:
            if after != model:
                violated.append("%s: contents %r, list gives %r" % (w, after, model))
            if op == "pop" and got_res != ref_res:
                violated.append("%s: returned %r, list returns %r" % (w, got_res, ref_res))
            if len(events) > 1:
                violated.append("%s: %d events" % (w, len(events)))
            if after != start and not events:
                violated.append("%s: contents changed without an event" % w)
            for ev in events:
                if not normal_form(start, ev):
                    violated.append("%s: event %r is not in normal form for %r" % (w, ev, start))
                elif replay_event(start, ev) != after:
                    violated.append("%s: replaying %r on %r gives %r, contents are %r" % (w, ev, start, replay_event(start, ev), after))
        if len(violated) >= 4:
            break
    return dict(reproduced=bool(violated), violated=violated[:4])


def set_probe_case(case):
    import random
    from traits.trait_set_object import TraitSet
    from traits.trait_errors import TraitError
    rnd = random.Random(int(case.get("seed", 0)))
    violated = []
    for trial in range(int(case.get("trials", 600))):
        mode = rnd.choice(["coerce", "identity"])

        def iv(x):
            if x == "bad":
                raise TraitError("bad item")
            return int(x) if mode == "coerce" else x
        universe = [1, 2, 3, 4, "3", "7", "bad"] if mode == "coerce" else [1, 2, 3, 4, 5, "bad"]
        start = {iv(x) for x in rnd.sample([1, 2, 3, 4], rnd.randint(0, 4))}
        ts = TraitSet(set(start), item_validator=iv)
        events = []
        ts.notifiers.append(lambda s, r, a: events.append((set(r), set(a))))
        operand = lambda: rnd.choice([set, frozenset, list])(rnd.sample(universe, rnd.randint(0, 3)))
        op = rnd.choice(["add", "discard", "remove", "pop", "clear", "update", "update2", "ior", "iand", "isub", "ixor", "difference_update", "intersection_update", "symmetric_difference_update", "difference_update2", "intersection_update2", "intersection_update0"])
        model, ref_exc, got_exc = set(start), None, None
        a1, a2 = operand(), operand()
        x = rnd.choice(universe)
        ident = mode == "identity"
        check_contents = True
        import operator
        f = {"add": lambda: ts.add(x), "discard": lambda: ts.discard(x), "remove": lambda: ts.remove(x), "pop": lambda: ts.pop(), "clear": lambda: ts.clear(),
             "update": lambda: ts.update(a1), "update2": lambda: ts.update(a1, a2), "ior": lambda: operator.ior(ts, a1), "iand": lambda: operator.iand(ts, a1),
             "isub": lambda: operator.isub(ts, a1), "ixor": lambda: operator.ixor(ts, a1), "difference_update": lambda: ts.difference_update(a1),
             "intersection_update": lambda: ts.intersection_update(a1), "symmetric_difference_update": lambda: ts.symmetric_difference_update(a1),
             "difference_update2": lambda: ts.difference_update(a1, a2), "intersection_update2": lambda: ts.intersection_update(a1, a2),
             "intersection_update0": lambda: ts.intersection_update()}[op]
        try:
            if op == "add":
                model.add(iv(x))
            elif op == "discard":
                model.discard(x)
            elif op == "remove":
                model.remove(x)
            elif op == "pop":
                check_contents = False
                if not model:
                    raise KeyError()
            elif op == "clear":
                model.clear()
            elif op == "update":
                model.update({iv(y) for y in a1})
            elif op == "update2":
                model.update({iv(y) for y in a1}, {iv(y) for y in a2})
            elif op in ("ior", "iand", "isub", "ixor") and isinstance(a1, list):
                raise TypeError()
            elif op == "ior":
                model |= {iv(y) for y in a1}
            elif op == "iand":
                model &= set(a1)
            elif op == "isub":
                model -= set(a1)
            elif op in ("ixor", "symmetric_difference_update"):
                {iv(y) for y in set(a1) - model}
                model ^= set(a1); check_contents = ident
            elif op == "difference_update":
                model.difference_update(a1)
            elif op == "intersection_update":
                model.intersection_update(a1)
            elif op == "difference_update2":
                model.difference_update(a1, a2)
            elif op == "intersection_update2":
                model.intersection_update(a1, a2)
            elif op == "intersection_update0":
                model.intersection_update()
        except Exception as e:
            ref_exc, model = type(e), set(start)
        try:
            f()
        except Exception as e:
            got_exc = type(e)
        after = set(ts)
        w = "%s(%r%s) on %r (%s items)" % (op, x if op in ("add", "discard", "remove") else a1, ", %r" % (a2,) if op.endswith("2") else "", start, mode)
        if got_exc is not ref_exc:
            violated.append("%s: raised %s, set on validated items %s" % (w, got_exc and got_exc.__name__, ref_exc and ref_exc.__name__))
        elif got_exc is not None:
            if after != start or events:
                violated.append("%s: failing operation left %r, events %r" % (w, after, events))
        else:
            if check_contents and after != model:
                violated.append("%s: contents %r, set gives %r" % (w, after, model))
            if len(events) > 1:
                violated.append("%s: %d events" % (w, len(events)))
            if (after != start) != bool(events):
                violated.append("%s: contents %s, %d event(s)" % (w, "changed" if after != start else "unchanged", len(events)))
            for (r, a) in events:
                if not r <= start or a & start or (start - r) | a != after:
                    violated.append("%s: event (removed %r, added %r) is not the delta from %r to %r" % (w, r, a, start, after))
        if len(violated) >= 4:
            break
    return dict(reproduced=bool(violated), violated=violated[:4])


def list_length_case(case):
    """C04: a List attribute never holds a list of illegal length -- whichever way the list object comes to exist (assignment,
    a declared default materialised at first read, direct construction, unpickling) and after every mutation."""
    from traits.api import HasTraits, List, Int, TraitError
    from traits.trait_list_object import TraitListObject
    violated = []

    def mk(minlen, maxlen, default):
        kw = dict(minlen=minlen, maxlen=maxlen)

        class A(HasTraits):
            xs = List(Int, default, **kw) if default is not None else List(Int, **kw)
        return A
    for minlen, maxlen in ((0, 2), (1, 3), (2, 2), (2, 5), (3, 4)):
        for default in (None, [], [7], [7, 8], [1, 2, 3], [1, 2, 3, 4, 5, 6]):
            try:
                A = mk(minlen, maxlen, default)
            except Exception:
                continue
            label = "List(Int, %r, minlen=%d, maxlen=%d)" % (default, minlen, maxlen)
            a = A()
            events = []
            a.on_trait_change(lambda *args: events.append(args), "xs_items")
            try:
                held = a.xs
            except TraitError:
                held = None
            if held is not None and not minlen <= len(held) <= maxlen:
                violated.append("%s: first read gives %r (length %d)" % (label, list(held), len(held)))
            if held is None:
                continue
            for opname, op in (("append(1)", lambda l: l.append(1)), ("pop()", lambda l: l.pop()), ("extend([1, 2])", lambda l: l.extend([1, 2])),
                               ("clear()", lambda l: l.clear()), ("del [0]", lambda l: l.__delitem__(0)), ("*= 2", lambda l: l.__imul__(2)), ("[:] = []", lambda l: l.__setitem__(slice(None), []))):
                before = list(a.xs)
                del events[:]
                try:
                    op(a.xs)
                    raised = None
                except (TraitError, IndexError) as e:
                    raised = e
                now = list(a.xs)
                if not minlen <= len(now) <= maxlen:
                    violated.append("%s: after %s the attribute holds %r (length %d)" % (label, opname, now, len(now)))
                if raised is not None and (now != before or events):
                    violated.append("%s: %s raised %r but contents %r -> %r, %d event(s)" % (label, opname, raised, before, now, len(events)))
            for value in ([], [1], [1, 2], [1, 2, 3], [1, 2, 3, 4, 5, 6]):
                try:
                    t = TraitListObject(A.class_traits()["xs"].handler, a, "xs", value)
                except TraitError:
                    continue
                if not minlen <= len(t) <= maxlen:
                    violated.append("%s: TraitListObject(..., %r) constructed with length %d" % (label, value, len(t)))
    return dict(reproduced=bool(violated), violated=violated[:8])


def main():
    case = json.loads(sys.stdin.read())
    fam = case.get("family", "list")
    out = {"list": list_case, "dict": dict_case, "dict_event_factory": dict_event_factory_case,
           "set_copy": set_copy_case, "set": set_case, "dict_probe": dict_probe_case, "list_probe": list_probe_case,
           "set_probe": set_probe_case, "list_length": list_length_case}[fam](case)
    print(json.dumps(out, default=repr))


if __name__ == "__main__":
    main()
