"""Replay harness for C17: offers must apply according to the class relations AS THEY ARE at the time of the query."""
import abc
import json
import sys


def late_registration_case(case):
    from traits.adaptation.adaptation_manager import AdaptationManager
    from traits.adaptation.adaptation_error import AdaptationError
    from traits.api import HasTraits, Interface, Supports, TraitError
    violated = []

    class Source(abc.ABC):
        pass

    class ISource(Interface):
        pass

    class Target:
        def __init__(self, adaptee):
            self.adaptee = adaptee
    for proto, label in ((Source, "an ABC"), (ISource, "a traits Interface")):
        class Thing:
            pass
        m = AdaptationManager()
        m.register_factory(Target, proto, Target)
        t = Thing()
        if m.adapt(t, Target, None) is not None:
            violated.append("%s: adapted although the class provides nothing yet" % label)
        if m.supports_protocol(t, Target):
            violated.append("%s: supports_protocol true before the registration" % label)
        proto.register(Thing)          # from now on issubclass(Thing, proto)
        try:
            r = m.adapt(t, Target)
            if not isinstance(r, Target) or r.adaptee is not t:
                violated.append("%s: after registering the class, adapt returned %r" % (label, r))
        except AdaptationError:
            violated.append("%s: a chain exists after Thing was registered with the protocol, yet adapt raised AdaptationError" % label)
        if not m.supports_protocol(t, Target):
            violated.append("%s: supports_protocol is False although a chain exists now" % label)
        m2 = AdaptationManager()
        m2.register_factory(Target, proto, Target)
        if m2.adapt(t, Target, None) is None:
            violated.append("%s: a fresh manager finds no chain either" % label)
    return dict(reproduced=bool(violated), violated=violated[:6])


def main():
    case = json.loads(sys.stdin.read())
    out = {"late_registration": late_registration_case}[case["family"]](case)
    print(json.dumps(out, default=repr))


if __name__ == "__main__":
    main()
