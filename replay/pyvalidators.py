"""Replay harness / concrete oracle for C03 (Python validate methods against the compiled fast validators).

One JSON case on stdin: {"family": "<qualified name of the Python validate method>"}.  The trait types whose Python
validate is that method are instantiated, and for a library of values (exact builtin values, subclasses, numpy scalars,
objects whose conversion protocol returns odd things or raises TypeError / ValueError / OverflowError / ZeroDivisionError)
the three clauses of the statement are evaluated on the real code:

  (1) the compiled path (assignment to the attribute) accepts exactly the values the Python-level validate accepts,
  (2) both yield an equal value of the same exact type,
  (3) whenever the Python method raises TraitError the compiled path raises TraitError too;
  (C01) any other exception the Python method lets through is the one raised by the value's own protocol.

One JSON verdict on stdout."""
import json
import sys


class Boom(Exception):
    pass


def library():
    vals = [0, 1, -7, 2 ** 70, True, False, 0.0, -1.5, float("nan"), float("inf"), 1 + 2j, "", "abc", "12", "1.5", "x" * 3, b"", b"ab",
            None, [], (), (1, 2), {}, object(), len, int, lambda: 1]

    class I(int):
        pass

    class Fl(float):
        pass

    class St(str):
        pass

    class By(bytes):
        pass

    class Cx(complex):
        pass
    vals += [I(3), Fl(2.5), St("s"), By(b"b"), Cx(1j)]

    def proto(name, result=None, exc=None):
        def m(self):
            if exc is not None:
                raise exc
            return result
        return type("P_%s_%s" % (name.strip("_"), type(exc).__name__ if exc else type(result).__name__), (), {name: m})()
    for name, good in (("__index__", [5, True, I(4)]), ("__float__", [2.25, Fl(1.5)]), ("__complex__", [3j, Cx(2j)])):
        for g in good:
            vals.append(proto(name, result=g))
        for e in (TypeError("t"), ValueError("v"), OverflowError("o"), ZeroDivisionError("z"), Boom("b")):
            vals.append(proto(name, exc=e))
    for name in ("__str__", "__bytes__", "__bool__", "__int__"):
        for e in (TypeError("t"), ValueError("v"), Boom("b")):
            vals.append(proto(name, exc=e))
    vals.append(proto("__bool__", result=True))
    vals.append(proto("__int__", result=9))
    vals.append(proto("__call__", result=1))
    try:
        import numpy as np
        vals += [np.int64(4), np.int8(-3), np.float64(1.25), np.float32(0.5), np.bool_(True), np.bool_(False), np.complex128(1j),
                 np.str_("n"), np.array(3), np.array([1, 2])]
    except ImportError:
        pass
    return vals


def traits_for(family):
    import traits.api as T
    from traits.trait_types import This
    table = {
        "BaseInt.validate": [("Int", lambda: T.Int())],
        "BaseFloat.validate": [("Float", lambda: T.Float())],
        "BaseComplex.validate": [("Complex", lambda: T.Complex())],
        "BaseStr.validate": [("Str", lambda: T.Str())],
        "BaseBytes.validate": [("Bytes", lambda: T.Bytes())],
        "BaseBool.validate": [("Bool", lambda: T.Bool())],
        "BaseCInt.validate": [("CInt", lambda: T.CInt())],
        "BaseCFloat.validate": [("CFloat", lambda: T.CFloat())],
        "BaseCComplex.validate": [("CComplex", lambda: T.CComplex())],
        "BaseCStr.validate": [("CStr", lambda: T.CStr())],
        "BaseCBytes.validate": [("CBytes", lambda: T.CBytes())],
        "BaseCBool.validate": [("CBool", lambda: T.CBool())],
        "This.validate": [("This(allow_none=False)", lambda: This(allow_none=False))],
        "This.validate_none": [("This()", lambda: This())],
        "BaseCallable.validate": [("Callable()", lambda: T.Callable()), ("Callable(allow_none=False)", lambda: T.Callable(allow_none=False))],
        "BaseRange.float_validate": [("Range(0.0, 1.0)", lambda: T.Range(0.0, 1.0)), ("Range(0.0, 1.0, exclude_low, exclude_high)", lambda: T.Range(0.0, 1.0, exclude_low=True, exclude_high=True)),
                                     ("Range(low=0.5)", lambda: T.Range(low=0.5)), ("Range(high=-1.0)", lambda: T.Range(high=-1.0, value=-2.0))],
        "BaseRange.int_validate": [("Range(0, 10)", lambda: T.Range(0, 10)), ("Range(0, 10, exclude)", lambda: T.Range(0, 10, exclude_low=True, exclude_high=True)),
                                   ("Range(low=3)", lambda: T.Range(low=3))],
        "BaseEnum.validate": [("Enum(1, 2, 3)", lambda: T.Enum(1, 2, 3)), ("Enum('a', 'b')", lambda: T.Enum("a", "b"))],
        "Map.validate": [("Map({'a': 1, 2: 3})", lambda: T.Map({"a": 1, 2: 3}))],
        "BaseTuple.validate": [("Tuple(Int, Str)", lambda: T.Tuple(T.Int, T.Str)), ("Tuple(CInt, Float)", lambda: T.Tuple(T.CInt, T.Float))],
        "BaseInstance.validate": [("Instance(int)", lambda: T.Instance(int)), ("Instance(int, allow_none=False)", lambda: T.Instance(int, allow_none=False))],
    }
    return table.get(family, [])


def same(a, b):
    if type(a) is not type(b):
        return False
    if a is b:
        return True
    try:
        r = a == b
        if hasattr(r, "all"):
            r = r.all()
        return bool(r) or (a != a and b != b)
    except Exception:
        return False


def resolve_class_case(case):
    """compound / list / plain traits with an Instance given by class NAME: after the name has been resolved (first use) the
    compiled path must still decide like the handler's Python-level validate for values of every alternative"""
    import traits.api as T
    from traits.api import HasTraits, TraitError
    violated, probes = [], 0
    import sys as _sys
    mod = _sys.modules[__name__]

    class Target(HasTraits):
        pass
    mod.Target = Target
    Target.__module__ = __name__
    decls = {"Either(Int, Instance('Target'))": lambda: T.Either(T.Int, T.Instance(__name__ + ".Target")),
             "Trait('', Str, Instance('Target'))": lambda: T.Trait("", T.Str, T.Instance(__name__ + ".Target")),
             "Instance('Target')": lambda: T.Instance(__name__ + ".Target"),
             "List(Instance('Target'))": lambda: T.List(T.Instance(__name__ + ".Target")),
             "Union(Int, Instance('Target'))": lambda: T.Union(T.Int, T.Instance(__name__ + ".Target"))}
    values = [3, -1, True, "abc", "", 1.5, None, Target(), [Target()], [], object()]
    for label, mk in decls.items():
        for trigger in (Target(), 1.5, [Target()], None):
            class A(HasTraits):
                x = mk()
            a = A()
            try:
                a.x = trigger           # first use: resolves the class name
            except TraitError:
                pass
            handler = A.class_traits()["x"].handler
            for v in values:
                probes += 1
                b = A()
                try:
                    b.x = v
                    c_out = "ok"
                except TraitError:
                    c_out = "TraitError"
                except Exception as e:
                    c_out = "raises %s" % type(e).__name__
                try:
                    handler.validate(A(), "x", v)
                    p_out = "ok"
                except TraitError:
                    p_out = "TraitError"
                except Exception as e:
                    p_out = "raises %s" % type(e).__name__
                if (c_out == "ok") != (p_out == "ok"):
                    violated.append("%s after resolving through %r <- %r: compiled path %s, Python validate %s" % (label, type(trigger).__name__, v, c_out, p_out))
    return dict(reproduced=bool(violated), violated=violated[:8], probes=probes)


def nested_compound_case(case):
    """compound traits, flat and nested (a compound as an alternative of another one, a compound as a Tuple member): the compiled
    path accepts iff the handler's Python-level validate accepts, and both give an equal value of the same type"""
    import traits.api as T
    from traits.api import HasTraits, TraitError
    violated, probes = [], 0
    decls = {
        "Either(Either(Str, List(Int)), Int, Float)": lambda: T.Either(T.Either(T.Str, T.List(T.Int)), T.Int, T.Float),
        "Either(Str, List(Int), Int, Float)": lambda: T.Either(T.Str, T.List(T.Int), T.Int, T.Float),
        "Either(Int, Either(List(Int), Dict(Str, Int)), Str)": lambda: T.Either(T.Int, T.Either(T.List(T.Int), T.Dict(T.Str, T.Int)), T.Str),
        "Tuple(Either(Either(Str, List(Int)), Int), Str)": lambda: T.Tuple(T.Either(T.Either(T.Str, T.List(T.Int)), T.Int), T.Str),
        "Either(Range(0.0, 1.0), Either(Set(Int), None), Bool)": lambda: T.Either(T.Range(0.0, 1.0), T.Either(T.Set(T.Int), None), T.Bool),
        "Trait(None, Either(List(Str), Int), Float)": lambda: T.Trait(None, T.Either(T.List(T.Str), T.Int), T.Float),
    }
    values = [5, 2.5, True, "s", [1, 2], ["a"], {"k": 1}, {1, 2}, None, (7, "b"), ("x", "b"), ([1], "b"), (2.5, "b"), 0.5, object(), b"b"]
    for label, mk in decls.items():
        class A(HasTraits):
            x = mk()
        handler = A.class_traits()["x"].handler
        for v in values:
            probes += 1
            a = A()
            try:
                a.x = v
                c_out = ("ok", a.x)
            except TraitError:
                c_out = ("TraitError", None)
            except Exception as e:
                c_out = ("raises %s" % type(e).__name__, None)
            try:
                p_out = ("ok", handler.validate(A(), "x", v))
            except TraitError:
                p_out = ("TraitError", None)
            except Exception as e:
                p_out = ("raises %s" % type(e).__name__, None)
            if (c_out[0] == "ok") != (p_out[0] == "ok"):
                violated.append("%s <- %r: compiled path %s, Python validate %s" % (label, v, c_out[0], p_out[0]))
            elif c_out[0] == "ok" and (type(c_out[1]).__name__.replace("Trait", "").replace("Object", "").lower() !=
                                       type(p_out[1]).__name__.replace("Trait", "").replace("Object", "").lower() or list(map(repr, [c_out[1]])) != list(map(repr, [p_out[1]]))):
                violated.append("%s <- %r: compiled path stores %r, Python validate gives %r" % (label, v, c_out[1], p_out[1]))
    return dict(reproduced=bool(violated), violated=violated[:8], probes=probes)


def map_identity_case(case):
    """C03 (Map): the compiled validator and Map.validate consult ONE dictionary -- at every point of a history in which the
    application changes the dictionary it handed to Map(...) the two sides accept the same values."""
    from traits.api import HasTraits, Map, TraitError, Either, Int, Tuple
    violated = []
    reg = {"red": 1, "green": 2}

    class Model(HasTraits):
        color = Map(reg)
        alt = Either(Map(reg), Int)
        pair = Tuple(Map(reg), Int)
    o = Model()

    def out(f, *a):
        try:
            return ("ok", f(*a))
        except TraitError:
            return ("TraitError",)
        except Exception as e:
            return ("raises", type(e).__name__)

    def compare(stage):
        for nm, cands in (("color", ["red", "green", "blue", "mauve", 3, None, []]), ("alt", ["red", "blue", "mauve", 4]),
                          ("pair", [("red", 1), ("blue", 1), ("mauve", 1)])):
            ct = o.trait(nm)
            for v in cands:
                c, p = out(ct.validate, o, nm, v), out(ct.handler.validate, o, nm, v)
                if c != p:
                    violated.append("[%s] %s <- %r: compiled path %r, Python validate %r" % (stage, nm, v, c, p))
                if nm == "alt":
                    continue        # assigning to a compound with a mapped member runs the mapped post_setattr: not validation
                s_ = out(setattr, o, nm, v)
                if (s_[0] == "ok") != (p[0] == "ok"):
                    violated.append("[%s] assignment %s = %r: %s, Python validate %s" % (stage, nm, v, s_[0], p[0]))
    compare("as defined")
    reg["blue"] = 3
    compare("a key was added to the application's dictionary")
    del reg["red"]
    compare("a key was removed from the application's dictionary")
    h = Model.class_traits()["color"].handler
    if h.map is not reg or h.fast_validate[1] is not reg:
        violated.append("Map(...).map / the compiled descriptor's dictionary is not the dictionary handed in")
    return dict(reproduced=bool(violated), violated=violated[:12])


def mapped_shadow_case(case):
    """C01: a mapped member of a compound trait.  A value accepted by ANOTHER member of the compound is stored; its shadow is the
    value itself; nothing but TraitError may come out of an assignment, and reading the default raises nothing."""
    from traits.api import HasTraits, Map, PrefixMap, Either, Int, Trait, TraitError, Union
    violated = []
    reg = {"red": 1, "green": 2}

    def classes():
        class A(HasTraits):
            t = Either(Map(reg), Int)

        class B(HasTraits):
            t = Either(PrefixMap(reg), Int)

        class C(HasTraits):
            t = Either(Int, Map(reg))

        class D(HasTraits):
            t = Trait("red", reg, Int)
        return [("Either(Map, Int)", A), ("Either(PrefixMap, Int)", B), ("Either(Int, Map)", C), ("Trait('red', {...}, Int)", D)]
    for label, cls in classes():
        o = cls()
        try:
            o.t
        except Exception as e:
            violated.append("%s: reading the default raises %r" % (label, e))
        for v, shadow in ((4, 4), ("red", 1), (7, 7), ("green", 2), ([], None), ("blue", None)):
            before = o.__dict__.get("t", "<unset>")
            try:
                o.t = v
            except TraitError:
                if shadow is not None:
                    violated.append("%s: t = %r rejected" % (label, v))
                elif o.__dict__.get("t", "<unset>") != before:
                    violated.append("%s: t = %r rejected but stored" % (label, v))
                continue
            except Exception as e:
                violated.append("%s: t = %r raises %r (stored value now %r, was %r)" % (label, v, e, o.__dict__.get("t", "<unset>"), before))
                continue
            if shadow is None:
                violated.append("%s: t = %r accepted" % (label, v))
            elif o.t != v or o.t_ != shadow:
                violated.append("%s: after t = %r: t is %r, shadow t_ is %r (expected %r)" % (label, v, o.t, o.t_, shadow))
    return dict(reproduced=bool(violated), violated=violated[:12])


def prefix_list_case(case):
    """C01 (PrefixList): every assignment stores a member of THIS trait's values -- the value itself or its unique completion --
    or raises TraitError; whatever other PrefixList traits exist and whatever was assigned to them before."""
    import itertools
    from traits.api import HasTraits, PrefixList, TraitError
    violated = []
    lists = [["yes", "no"], ["red", "yellow", "green"], ["yawning", "yearning", "calm"], ["small", "large"], ["y", "yy", "n"], ["no", "nobody"]]
    probes = ["y", "ye", "yes", "n", "no", "nob", "r", "s", "", "ya", "yy", "x", "g", "l", 3, None]

    def expected(vals, v):
        if not isinstance(v, str):
            return None
        if v in vals:
            return v
        m = [x for x in vals if x.startswith(v)]
        return m[0] if len(m) == 1 else None
    for order in (list(range(len(lists))), list(reversed(range(len(lists))))):
        ns = {"t%d" % i: PrefixList(lists[i]) for i in order}
        cls = type("P", (HasTraits,), ns)
        o = cls()
        for v in probes:
            for i in order:
                nm = "t%d" % i
                want = expected(lists[i], v)
                before = getattr(o, nm)
                try:
                    setattr(o, nm, v)
                    got = ("ok", getattr(o, nm))
                except TraitError:
                    got = ("TraitError", getattr(o, nm))
                except Exception as e:
                    got = ("raises %r" % e, getattr(o, nm))
                exp = ("ok", want) if want is not None else ("TraitError", before)
                if got != exp:
                    violated.append("PrefixList(%r) <- %r (after the same value went to the other PrefixList traits): %r, expected %r" % (lists[i], v, got, exp))
    return dict(reproduced=bool(violated), violated=violated[:10])


def run(case):
    if case.get("family") == "prefix_list":
        return prefix_list_case(case)
    if case.get("family") == "mapped_shadow":
        return mapped_shadow_case(case)
    if case.get("family") == "Map.__init__":
        return map_identity_case(case)
    if case.get("family") == "nested_compound":
        return nested_compound_case(case)
    if case.get("family") == "resolve_class":
        return resolve_class_case(case)
    from traits.api import HasTraits, TraitError
    fam = case.get("family")
    violated, probes = [], 0
    extra = [(1, "a"), (2, 3), ("1", 2.0), (1, "a", 3), [1, "a"]] if "Tuple" in fam else []
    for label, mk in traits_for(fam):
        class A(HasTraits):
            x = mk()
        handler = A.class_traits()["x"].handler
        pyvalidate = getattr(handler, "validate")
        for v in library() + extra:
            probes += 1
            a = A()
            try:
                a.x = v
                c_out = ("ok", a.x)
            except TraitError:
                c_out = ("TraitError", None)
            except Exception as e:
                c_out = ("raises", e)
            b = A()
            try:
                p_out = ("ok", pyvalidate(b, "x", v))
            except TraitError:
                p_out = ("TraitError", None)
            except Exception as e:
                p_out = ("raises", e)
            desc = "%s <- %s" % (label, (repr(v)[:60] if type(v).__module__ != __name__ else type(v).__name__))
            if (c_out[0] == "ok") != (p_out[0] == "ok"):
                violated.append("%s: compiled path %s, Python validate %s" % (desc, c_out[0], p_out[0]))
            elif c_out[0] == "ok" and not same(c_out[1], p_out[1]):
                violated.append("%s: compiled path stores %r (%s), Python validate gives %r (%s)" % (
                    desc, c_out[1], type(c_out[1]).__name__, p_out[1], type(p_out[1]).__name__))
            elif p_out[0] == "TraitError" and c_out[0] != "TraitError":
                violated.append("%s: Python validate raises TraitError, compiled path %s" % (desc, c_out[0]))
            elif p_out[0] == "raises" and not isinstance(v, (str, bytes, float, int, complex)) and type(v).__module__ == __name__:
                # C01: what passes through must be the exception of the value's own protocol
                exp = None
                for nm in ("__index__", "__float__", "__complex__", "__str__", "__bytes__", "__bool__", "__int__"):
                    if nm in type(v).__dict__:
                        try:
                            getattr(v, nm)()
                        except Exception as e:
                            exp = e
                if exp is not None and p_out[1] is not exp:
                    violated.append("%s: Python validate lets %r through, the value's own protocol raised %r" % (desc, p_out[1], exp))
    return dict(reproduced=bool(violated), violated=violated[:12], probes=probes)


if __name__ == "__main__":
    case = json.loads(sys.stdin.read())
    try:
        print(json.dumps(run(case), default=str))
    except Exception as e:      # a harness failure is not a reproduction
        import traceback
        print(json.dumps(dict(reproduced=False, detail="harness error: %r" % (e,), trace=traceback.format_exc()[-1500:])))
