"""Guard (DESIGN 5.2): the CPython API facts the C models in vc/cvc/api.py rely on, checked against the real interpreter.

Run under /venv/bin/python (the interpreter ctraits is built for).  Each probe calls the real C-API function through
ctypes on concrete objects and compares with what the model says.  A mismatch means the MODEL is wrong (exit 1, one line
per mismatch); it is reported as an internal error of the checker, never as a violation of a property."""
import ctypes
import json
import sys

api = ctypes.pythonapi
P = ctypes.py_object
V = ctypes.c_void_p


def fn(name, res, *args):
    f = getattr(api, name)
    f.restype = res
    f.argtypes = list(args)
    return f


def call(f, *args):
    """-> (result, exception class or None): ctypes.pythonapi re-raises a pending exception after the call"""
    try:
        return f(*args), None
    except BaseException as e:        # noqa: B902 -- whatever the API set
        return None, type(e)


def main():
    bad = []

    def expect(label, cond, detail=""):
        if not cond:
            bad.append("%s %s" % (label, detail))

    # --- immortal objects (CPython 3.12): reference counting on None / True / False / () changes nothing
    for label, o in (("None", None), ("True", True), ("False", False), ("empty tuple", ())):
        r0 = sys.getrefcount(o)
        fn("Py_IncRef", None, P)(o)
        expect("immortal:%s" % label, sys.getrefcount(o) == r0, "refcount moved %d -> %d" % (r0, sys.getrefcount(o)))
    t0 = fn("PyTuple_New", P, ctypes.c_ssize_t)(0)
    expect("PyTuple_New(0)-is-the-empty-tuple-singleton", t0 is tuple())
    # --- NULL-tolerant functions: answered without a dereference
    expect("PyCallable_Check(NULL)==0", fn("PyCallable_Check", ctypes.c_int, V)(None) == 0)
    r, e = call(fn("PyLong_AsLong", ctypes.c_long, V), None)
    expect("PyLong_AsLong(NULL)==-1/SystemError", e is SystemError, "got %r %r" % (r, e))
    r, e = call(fn("PySequence_List", V, V), None)
    expect("PySequence_List(NULL)==NULL/SystemError", not r and e is SystemError, "got %r %r" % (r, e))
    r, e = call(fn("PyDict_Copy", V, V), None)
    expect("PyDict_Copy(NULL)==NULL/SystemError", not r and e is SystemError, "got %r %r" % (r, e))
    r, e = call(fn("PyObject_CallMethod", V, V, ctypes.c_char_p, ctypes.c_char_p), None, b"x", None)
    expect("PyObject_CallMethod(NULL receiver)==NULL/SystemError", not r and e is SystemError, "got %r %r" % (r, e))
    # --- dictionaries: lookups swallow errors, insertion reports them, exact str keys never fail
    class Bad(str):
        def __hash__(self):
            raise ZeroDivisionError("hash")
    d = {}
    r, e = call(fn("PyDict_GetItem", V, P, P), d, Bad("k"))
    expect("PyDict_GetItem-suppresses-hash-errors", not r and e is None, "got %r %r" % (r, e))
    r, e = call(fn("PyDict_SetItem", ctypes.c_int, P, P, P), d, Bad("k"), 1)
    expect("PyDict_SetItem-reports-hash-errors", e is ZeroDivisionError, "got %r %r" % (r, e))
    r = fn("PyDict_SetItem", ctypes.c_int, P, P, P)(d, "k", 1)
    expect("PyDict_SetItem-exact-str-succeeds", r == 0 and d == {"k": 1})
    r, e = call(fn("PyDict_GetItemWithError", V, P, P), d, Bad("k"))
    expect("PyDict_GetItemWithError-reports-hash-errors", not r and e is ZeroDivisionError, "got %r %r" % (r, e))
    # --- truth value / isinstance / contains: -1 with the exception of the user code
    class B:
        def __bool__(self):
            raise ZeroDivisionError("bool")
    r, e = call(fn("PyObject_IsTrue", ctypes.c_int, P), B())
    expect("PyObject_IsTrue-propagates", e is ZeroDivisionError, "got %r %r" % (r, e))
    expect("PyObject_IsTrue-0/1", fn("PyObject_IsTrue", ctypes.c_int, P)([]) == 0 and fn("PyObject_IsTrue", ctypes.c_int, P)([1]) == 1)
    class M(type):
        def __instancecheck__(cls, inst):
            raise ZeroDivisionError("instancecheck")
    class K(metaclass=M):
        pass
    r, e = call(fn("PyObject_IsInstance", ctypes.c_int, P, P), 3, K)
    expect("PyObject_IsInstance-propagates", e is ZeroDivisionError, "got %r %r" % (r, e))
    # --- conversions
    r, e = call(fn("PyLong_AsLong", ctypes.c_long, P), 2 ** 70)
    expect("PyLong_AsLong-overflow", e is OverflowError, "got %r %r" % (r, e))
    class I:
        def __index__(self):
            return 7
    expect("PyLong_AsLong-uses-__index__", fn("PyLong_AsLong", ctypes.c_long, P)(I()) == 7)
    # --- tuples / lists
    t = fn("PyTuple_Pack", P, ctypes.c_ssize_t, P, P)(2, "a", "b")
    expect("PyTuple_Pack", t == ("a", "b"))
    o = object()
    r0 = sys.getrefcount(o)
    t = fn("PyTuple_Pack", P, ctypes.c_ssize_t, P)(1, o)
    expect("PyTuple_Pack-takes-its-own-reference", sys.getrefcount(o) == r0 + 1)
    del t
    expect("PyTuple_Pack-releases-with-the-tuple", sys.getrefcount(o) == r0)
    lst = fn("PyList_New", P, ctypes.c_ssize_t)(0)
    expect("PyList_New(0)-is-a-new-empty-list", lst == [] and lst is not fn("PyList_New", P, ctypes.c_ssize_t)(0))
    src = [1, 2]
    cp = fn("PySequence_List", P, P)(src)
    expect("PySequence_List-copies", cp == src and cp is not src)
    dd = {"a": 1}
    cp = fn("PyDict_Copy", P, P)(dd)
    expect("PyDict_Copy-copies", cp == dd and cp is not dd)
    # --- recursion guard
    expect("Py_EnterRecursiveCall-0-in-normal-depth", fn("Py_EnterRecursiveCall", ctypes.c_int, ctypes.c_char_p)(b" in guard") == 0)
    fn("Py_LeaveRecursiveCall", None)()
    print(json.dumps(dict(probes=31, mismatches=bad)))
    return 1 if bad else 0


if __name__ == "__main__":
    sys.exit(main())
