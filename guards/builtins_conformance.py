"""Guard (DESIGN 5.2): definitional axioms of the Python builtins model (vc/pyvc/builtins_model.py, vc/pyvc/core.py) against
CPython, on an exhaustive small grid.  Run under python3-vt.  The model terms are instantiated with concrete integers and
decided by z3; the answers must be what the running interpreter computes.  A mismatch is a wrong MODEL (checker error)."""
import itertools
import json
import os
import sys

sys.path.insert(0, os.path.dirname(os.path.dirname(os.path.abspath(__file__))))
import z3                                                    # noqa: E402
from vc.pyvc import core, builtins_model as B                # noqa: E402
from vc.pyvc.values import VOptInt, VSlice                   # noqa: E402


def solve_for(terms, facts):
    s = z3.Solver()
    s.add(*facts)
    if s.check() != z3.sat:
        return None
    m = s.model()
    vals = [m.eval(t, model_completion=True).as_long() for t in terms]
    # uniqueness: the definitions must determine the values
    s.add(z3.Or(*[t != v for t, v in zip(terms, vals)]))
    return vals if s.check() == z3.unsat else "not-unique"


def opt(v):
    return VOptInt(z3.BoolVal(v is None), z3.IntVal(0 if v is None else v))


def main():
    bad = []
    probes = 0
    quick = os.environ.get("VERIF_TIER", "quick") != "thorough" and "--thorough" not in sys.argv
    rng = [None, -7, -1, 0, 2, 9] if quick else [None, -7, -3, -1, 0, 1, 2, 5, 9]
    for n in ((0, 4) if quick else (0, 1, 4)):
        for a, b, c in itertools.product(rng, rng, [None, -3, -1, 1, 2]):
            cx = core.Cx()
            ta, tb, tc = B.slice_indices(cx, VSlice(opt(a), opt(b), opt(c)), z3.IntVal(n))
            got = solve_for([ta, tb, tc], cx.axioms)
            want = list(slice(a, b, c).indices(n))
            probes += 1
            if got != want:
                bad.append("slice(%r,%r,%r).indices(%d): model %r, CPython %r" % (a, b, c, n, got, want))
    # floor division and modulo
    for x, y in itertools.product(range(-7, 8), [-3, -2, -1, 1, 2, 3]):
        q = z3.simplify(core.pyfloordiv(z3.IntVal(x), z3.IntVal(y))).as_long()
        r = z3.simplify(core.pymod(z3.IntVal(x), z3.IntVal(y))).as_long()
        probes += 1
        if (q, r) != (x // y, x % y):
            bad.append("%d // %d, %d %% %d: model %r, CPython %r" % (x, y, x, y, (q, r), (x // y, x % y)))
    # length of range(a, b, c)
    class _St:
        pass
    for a, b, c in itertools.product(range(-3, 4) if quick else range(-4, 6), range(-3, 4) if quick else range(-4, 6), [-3, -2, -1, 1, 2, 3]):
        cx = core.Cx()
        bi = B.Builtins(cx)
        cnt = bi.range_count(z3.IntVal(a), z3.IntVal(b), z3.IntVal(c), None)
        cnt = cnt[0] if isinstance(cnt, tuple) else cnt
        got = solve_for([cnt], cx.axioms)
        probes += 1
        if got != [len(range(a, b, c))]:
            bad.append("len(range(%d,%d,%d)): model %r, CPython %r" % (a, b, c, got, len(range(a, b, c))))
    print(json.dumps(dict(probes=probes, mismatches=bad[:20])))
    return 1 if bad else 0


if __name__ == "__main__":
    sys.exit(main())
